#!/bin/bash
# runs every registered quick check against /repo; prints one line per property
cd /verif
fail=0
for p in $(python3 -c "import json;print(' '.join(c['property_id'] for c in json.load(open('MANIFEST.json'))['checks']))"); do
  out=$(./check $p --tier ${1:-quick} 2>&1); rc=$?
  echo "$p rc=$rc $(echo "$out" | tail -1 | cut -c1-170)"
  [ $rc -ne 0 ] && { fail=1; echo "$out" | grep -E "VIOLATION|MACHINERY" | head -3; }
done
exit $fail
