#!/usr/bin/env python3
"""coverage.py: lists the non-test functions of /repo that no check reads - neither under a
written contract nor inlined into the verification of a function that is (from the evidence
files of the last run of every property; default contracts applied by sweeps are not counted,
so GET handlers that only fall under the C15/C17 default contracts appear here too)."""
import json, glob, subprocess, re
cov, inl = set(), set()
for f in glob.glob('/verif/evidence/C*.json'):
    c = json.load(open(f))['coverage']
    for e in c['functions_under_contract']:
        cov.add(e['function'])
        for i in (e.get('inlined') or []):
            inl.add(i)
out = subprocess.run(['/verif/bin/gvc', 'list'], capture_output=True, text=True).stdout
mod = 'github.com/volatiletech/authboss/v3'
def norm(k):
    pkg, name = k.split(':', 1)
    full = mod + ('/' + pkg if pkg else '')
    m = re.match(r'\((\*?)([^)]+)\)\.(.*)', name)
    if m:
        return '(%s%s.%s).%s' % (m.group(1), full, m.group(2), m.group(3))
    return full + '.' + name
miss = []
for l in out.strip().split('\n'):
    k, file = l.split('\t')
    if k.startswith('mocks:') or file.endswith('_test.go') or not file or file.startswith('zz_verif'):
        continue
    if k in cov or norm(k) in inl:
        continue
    miss.append((file, k))
miss.sort()
print(len(cov), 'functions under contract,', len(inl), 'inlined into them,', len(miss), 'read by no written contract:')
for f, k in miss:
    print(' ', f, k)
