#!/usr/bin/env python3
"""mkmut.py <kind> <name> <expect> <file> : reads OLD and NEW text blocks from stdin separated by a line '=====' and
writes selftest/<kind>/<name>.patch (unified diff against /repo) with a header naming the expectation.
kind = mutants|benign ; expect = "C03 lock.Middleware#1#1/mw_blocks" (property + obligation that must fail) or "C03" for benign."""
import sys, subprocess, os, tempfile
kind, name, expect, rel = sys.argv[1:5]
data = sys.stdin.read()
src = open(os.path.join("/repo", rel)).read()
out = src
for pair in data.split("\n#####\n"):
    old, new = pair.split("\n=====\n") if "\n=====\n" in pair else (pair.split("\n=====")[0], "")
    old = old.strip("\n"); new = new.strip("\n")
    if out.count(old) != 1:
        sys.exit("OLD text occurs %d times in %s: %r" % (out.count(old), rel, old[:60]))
    out = out.replace(old, new)
with tempfile.TemporaryDirectory() as d:
    os.makedirs(os.path.join(d, "a", os.path.dirname(rel)), exist_ok=True)
    os.makedirs(os.path.join(d, "b", os.path.dirname(rel)), exist_ok=True)
    open(os.path.join(d, "a", rel), "w").write(src)
    open(os.path.join(d, "b", rel), "w").write(out)
    p = subprocess.run(["diff", "-u", os.path.join("a", rel), os.path.join("b", rel)], cwd=d, capture_output=True, text=True)
path = "/verif/selftest/%s/%s.patch" % (kind, name)
mode = "a" if os.path.exists(path) and "--append" in sys.argv else "w"
with open(path, mode) as f:
    if mode == "w":
        f.write("# expect: %s\n" % expect)
    f.write(p.stdout)
print("wrote", path)
