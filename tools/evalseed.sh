#!/bin/bash
# evalseed.sh <Cxx> [outdir-suffix]: confirms a seeded change produced by a sub-agent
# (patch compiles, suite passes, demo fails with / passes without), then runs the
# property's check (and optionally others) against it. Writes /verif/seeded/<id>/.
set -u
id="$1"; src="${SEEDDIR:-/tmp/seed}/$id.out"; name="${2:-$id}"; prop="${id:0:3}"
export GOFLAGS=-mod=mod GOPROXY=off GOSUMDB=off GOTOOLCHAIN=local
[ -f "$src/patch.diff" ] || { echo "no patch for $id"; exit 2; }
wt=$(mktemp -d /tmp/evalseed-XXXXXX); rmdir "$wt"
git -C /repo worktree add -q --detach "$wt" HEAD || exit 2
trap 'git -C /repo worktree remove --force "$wt" >/dev/null 2>&1; rm -rf "$wt"' EXIT
pkgdir=$(python3 -c "import json;print(json.load(open('$src/meta.json')).get('package_dir','.'))")
dflags=$(python3 -c "import json;print(json.load(open('$src/meta.json')).get('demo_flags',''))")
cd "$wt"
git apply "$src/patch.diff" || { echo "RESULT $id patch-does-not-apply"; exit 1; }
go build ./... 2>&1 | tail -3 || true
if ! go build ./... >/dev/null 2>&1; then echo "RESULT $id does-not-build"; exit 1; fi
suite=$(go test -vet=off -count=1 ./... 2>&1 | grep -v "^ok\|no test files" | head -5)
[ -n "$suite" ] && { echo "RESULT $id suite-fails-with-patch: $suite"; exit 1; }
cp "$src/zz_seed_demo_test.go" "$wt/$pkgdir/zz_seed_demo_test.go"
with=$(go test $dflags -vet=off -count=1 -run 'TestSeedDemo' ./$pkgdir/ 2>&1 | tail -3)
echo "$with" | grep -q "^ok" && { echo "RESULT $id demo-passes-with-patch (not a breakage)"; exit 1; }
git checkout -q -- . ; git apply -R "$src/patch.diff" 2>/dev/null; git checkout -q -- . 
git diff --quiet || { echo "could not revert"; }
without=$(go test $dflags -vet=off -count=1 -run 'TestSeedDemo' ./$pkgdir/ 2>&1 | tail -3)
echo "$without" | grep -q "^ok" || { echo "RESULT $id demo-fails-without-patch: $without"; exit 1; }
cd /verif
mkdir -p /verif/seeded/$name
cp "$src/patch.diff" "$src/zz_seed_demo_test.go" /verif/seeded/$name/
# run the property's own check first, then every other check
caught=""; detail=""
for p in $prop $(python3 -c "import json;print(' '.join(c['property_id'] for c in json.load(open('/verif/MANIFEST.json'))['checks'] if c['property_id']!='$prop'))"); do
  out=$(/verif/tools/mutcheck.sh "$src/patch.diff" $p 2>&1); rc=$?
  if [ $rc -eq 1 ]; then
    v=$(echo "$out" | grep VIOLATION | sed 's/.*obligation=\([^ ]*\) status=\([^ ]*\)\(.*\)/\1 (\2\3)/' | head -4 | tr '\n' ';')
    caught="$caught $p"; detail="$detail $p: $v"
  elif [ $rc -ne 0 ]; then detail="$detail $p: rc=$rc;"; fi
  [ "$p" = "$prop" ] && [ $rc -eq 1 ] && [ -z "${ALLPROPS:-}" ] && break
done
python3 - "$id" "$name" "$caught" "$detail" <<'PY'
import json,sys,os
id,name,caught,detail=sys.argv[1:5]
m=json.load(open('%s/%s.out/meta.json'%(os.environ.get('SEEDDIR','/tmp/seed'),id)))
m.update({"confirmed_by_me":{"patch_applies_and_builds":True,"suite_passes_with_patch":True,"demo_fails_with_patch":True,"demo_passes_without_patch":True,
 "commands":["git apply patch.diff; go build ./...; go test -vet=off -count=1 ./...","cp zz_seed_demo_test.go <package_dir>/; go test -vet=off -count=1 -run TestSeedDemo ./<package_dir>/  (fails)","git checkout -- .; go test -run TestSeedDemo ./<package_dir>/  (passes)","tools/mutcheck.sh patch.diff <property>"]},
 "checks_that_raise_violation":caught.split(),"violations":detail.strip()})
json.dump(m,open('/verif/seeded/%s/meta.json'%name,'w'),indent=1)
print("RESULT",id,"confirmed; caught by:",caught or "NONE","|",detail.strip()[:400])
PY
