#!/bin/bash
# usage: mutcheck.sh <patch-file> <prop> [extra gvc args]
# Applies a patch to a scratch copy of /repo (outside /repo and /verif), runs
# the check for <prop> against it without touching evidence, removes the copy.
set -u
patch="$(realpath "$1")"; prop="$2"; shift 2
tmp=$(mktemp -d "${TMPDIR:-/tmp}/gvc-mut-XXXXXX")
trap 'rm -rf "$tmp"' EXIT
rsync -a --exclude .git /repo/ "$tmp/repo/"
( cd "$tmp/repo" && patch -p1 -s < "$patch" ) || { echo "PATCH-FAILED"; exit 3; }
/verif/bin/gvc check --prop "$prop" --repo "$tmp/repo" --no-evidence --verif "$tmp/verifout" --known /verif/known_findings.jsonl "$@"
rc=$?
if [ -n "${MUT_KEEP:-}" ] && [ -d "$tmp/verifout/replays" ]; then mkdir -p "$MUT_KEEP"; rm -rf "$MUT_KEEP/$(basename "$patch" .patch)-$prop"; cp -r "$tmp/verifout/replays" "$MUT_KEEP/$(basename "$patch" .patch)-$prop"; fi
exit $rc
