#!/usr/bin/env python3
# replaystats.py <dir>: summarises replay files kept by MUT_KEEP=<dir> tools/selftest.sh
import json,glob,sys,os,collections
d=sys.argv[1]
tot=conf=0; why=collections.Counter(); rows=[]
for f in sorted(glob.glob(d+'/*/*.json')):
    r=json.load(open(f)); rp=r.get('replay',{}); tot+=1
    if rp.get('confirmed'): conf+=1; continue
    if 'not_replayed' in rp:
        w='not replayed: '+rp['not_replayed'][:90].replace('\n',' ')
    else:
        e,o=rp.get('expected_effect_kinds') or [],rp.get('observed_effect_kinds') or []
        i=0
        while i<len(e) and i<len(o) and e[i]==o[i]: i+=1
        w='diverges at %d: want %s got %s'%(i,e[i] if i<len(e) else 'END',o[i] if i<len(o) else 'END')
    why[w.split(':')[0] if w.startswith('not') else 'diverges']+=1
    rows.append((os.path.basename(os.path.dirname(f)),r.get('obligation'),w))
print('replay files',tot,'confirmed',conf)
for k,v in why.most_common(): print(' ',v,k)
for row in rows: print(' | '.join(str(x) for x in row))
