#!/usr/bin/env python3
"""Regenerates /verif/MANIFEST.json from the table below. Run after changing which properties are claimed."""
import json, subprocess
props = [json.loads(l) for l in open('/verif/properties.jsonl')]
ids = [p['id'] for p in props]
# property -> (claimed?, level text, note)
claims = json.load(open('/verif/tools/claims.json'))
hook_commits = subprocess.run(['git','-C','/repo','log','--format=%H %s'],capture_output=True,text=True).stdout.splitlines()
hooks = [l.split()[0] for l in hook_commits if ' verif hook:' in ' '+l.split(' ',1)[1] or l.split(' ',1)[1].startswith('verif hook:')]
checks=[]; na=[]
for pid in ids:
    c = claims.get(pid)
    if c and c.get('claimed'):
        checks.append({
            "property_id": pid,
            "quick_cmd": "./check %s --tier quick" % pid,
            "thorough_cmd": "./check %s --tier thorough" % pid,
            "evidence_file": "/verif/evidence/%s.json" % pid,
            "replay_cmd_template": "./check --replay {path}",
            "engine": "gvc",
            "level_claimed": {"category": "proof", "text": c['text'], "design_ref": c.get('design_ref', 'DESIGN.md section 7, '+pid)},
            "level_note": c['note'],
            "technique": "contracts on the real functions (/repo/**/zz_verif_contracts.go) + weakest-precondition style VC generation over go/ssa + z3 5.1/4.8.12 and cvc5 1.0",
        })
    else:
        na.append({"property_id": pid, "reason": (c or {}).get('reason', 'check not built yet (work in progress, see DESIGN.md section 9)')})
m = {
 "version": 1,
 "setup_cmd": "cd /verif/engine && GOFLAGS=-mod=vendor GOPROXY=off GOSUMDB=off GOTOOLCHAIN=local go build -o /verif/bin/gvc .",
 "hooks": {"guard": "verif", "enable": "go build -tags verif (contract files /repo/**/zz_verif_contracts.go are comment-only and only visible with the tag)",
           "baseline_off_cmd": "cd /repo && GOFLAGS=-mod=mod GOPROXY=off GOSUMDB=off go test -vet=off -count=1 ./...",
           "source_commits": hooks, "add_only": True},
 "engines": [{"name": "gvc", "path": "/verif/engine", "serves_properties": [c['property_id'] for c in checks],
              "kind_free_text": "VC generator: symbolic execution of go/ssa function by function against contracts kept as structured comments in /repo; obligations discharged by z3/cvc5; counterexamples replayed on the real code through go test -overlay"}],
 "checks": checks,
 "notes": "see DESIGN.md; known findings in /verif/known_findings.jsonl; must-fail corpus in /verif/selftest",
 "not_applicable": na,
}
json.dump(m, open('/verif/MANIFEST.json','w'), indent=1)
print("checks:", [c['property_id'] for c in checks], "na:", [n['property_id'] for n in na])
