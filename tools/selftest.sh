#!/bin/bash
# Runs the must-fail corpus (selftest/mutants) and the benign corpus
# (selftest/benign) against scratch copies of /repo. Usage: selftest.sh [pattern]
# Each patch header "# expect: <prop> <obligation>" names what must fail.
cd /verif
pat="${1:-}"
fail=0
run_one() {
  kind="$1"; p="$2"
  exp=$(head -1 "$p" | sed 's/^# expect: //')
  prop=$(echo "$exp" | awk '{print $1}'); obl=$(echo "$exp" | awk '{print $2}')
  out=$(tools/mutcheck.sh "$p" "$prop" 2>&1); rc=$?
  if [ "$kind" = mutants ]; then
    if [ $rc -eq 1 ] && echo "$out" | grep -F "obligation=$obl " | grep -q "VIOLATION property=$prop "; then rep=confirmed; echo "$out" | grep -F "obligation=$obl " | grep -q "no-failing-input-found" && rep=no-input; echo "ok   caught  $(basename $p) -> $obl [replay: $rep]";
    else echo "MISS        $(basename $p) rc=$rc expected $prop $obl"; echo "$out" | tail -4 | sed 's/^/       /'; fail=1; fi
  else
    bad=0
    for pr in $exp; do
      out=$(tools/mutcheck.sh "$p" "$pr" 2>&1); rc=$?
      if [ $rc -ne 0 ]; then echo "ALARM       $(basename $p) property=$pr rc=$rc"; echo "$out" | grep -E "VIOLATION|MACHINERY" | head -3 | sed 's/^/       /'; bad=1; fi
    done
    [ $bad -eq 0 ] && echo "ok   benign  $(basename $p) ($exp)"
  fi
}
export -f run_one
ls /verif/selftest/mutants/*${pat}*.patch 2>/dev/null | xargs -P 6 -I{} bash -c 'run_one mutants {}'
ls /verif/selftest/benign/*${pat}*.patch 2>/dev/null | xargs -P 6 -I{} bash -c 'run_one benign {}'
