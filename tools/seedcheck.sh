#!/bin/bash
# seedcheck.sh [pattern]: re-runs every kept seeded change (/verif/seeded/<id>/patch.diff,
# produced by sub-agents that saw only the property text) against the check of
# its property on a scratch copy of /repo. Each must raise a VIOLATION.
cd /verif
pat="${1:-}"
one() {
  d="$1"; id=$(basename "$d"); prop="${id:0:3}"
  out=$(tools/mutcheck.sh "$d/patch.diff" "$prop" 2>&1); rc=$?
  if [ $rc -eq 1 ]; then
    echo "ok   caught  $id -> $(echo "$out" | grep VIOLATION | sed 's/.*obligation=\([^ ]*\) status=\([^ ]*\)\(.*\)/\1 (\2\3)/' | head -2 | tr '\n' ';')"
  else echo "MISS        $id rc=$rc"; fi
}
export -f one
ls -d /verif/seeded/*${pat}*/ | sed "s,/$,," | xargs -P 6 -I{} bash -c 'one {}' | sort -k3
