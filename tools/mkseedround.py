#!/usr/bin/env python3
"""mkseedround.py <suffix> <dir> [extra-hint-file]
Prepares a round of seeded changes: for every property one scratch git worktree of
/repo under <dir>/<id><suffix> (outside /repo and /verif; the verif contract files are
removed and that removal committed inside the worktree, so the sub-agent sees nothing
of /verif) and one prompt <dir>/<id><suffix>.prompt.txt made from the property text
and the summaries of the changes kept so far for that property (seeded/<id>*/meta.json).
The prompts are what a fresh sub-agent gets; nothing else.
"""
import json, os, subprocess, sys, glob

suffix, root = sys.argv[1], sys.argv[2]
hint = open(sys.argv[3]).read() if len(sys.argv) > 3 else ""
os.makedirs(root, exist_ok=True)
props = [json.loads(l) for l in open('/verif/properties.jsonl')]


def sh(*a, **k):
    return subprocess.run(a, check=True, capture_output=True, text=True, **k).stdout


for p in props:
    pid = p['id']
    sid = pid + suffix
    wt = os.path.join(root, sid)
    if not os.path.isdir(wt):
        sh('git', '-C', '/repo', 'worktree', 'add', '-q', '--detach', wt, 'HEAD')
        files = sh('git', '-C', wt, 'ls-files').split()
        vf = [f for f in files if os.path.basename(f).startswith('zz_verif')]
        if vf:
            sh('git', '-C', wt, 'rm', '-q', *vf)
            sh('git', '-C', wt, '-c', 'user.name=x', '-c', 'user.email=x@x', 'commit', '-q', '-m', 'scratch')
    a = p['anchors']
    prev = []
    for d in sorted(glob.glob('/verif/seeded/%s*/meta.json' % pid)):
        m = json.load(open(d))
        prev.append('  PREVIOUS (%s): %s' % (os.path.basename(os.path.dirname(d)), m.get('summary', '')[:330].replace('\n', ' ')))
    txt = f"""You are helping to evaluate a verification effort for the Go library volatiletech/authboss (a modular web authentication library). You have your own scratch git worktree of the library at {wt} (Go module github.com/volatiletech/authboss/v3). Work ONLY inside that directory; never touch /repo or /verif.

Environment: the sandbox has no network. For every Go command set: export GOFLAGS=-mod=mod GOPROXY=off GOSUMDB=off GOTOOLCHAIN=local . The existing test suite is run with: go test -vet=off -count=1 ./...  (all tests pass on the unchanged tree).

The semantic property under study:

Property {pid}: {p['title']}

Statement: {p['statement']}

Quantifier: {p['quantifier']['text']}

Why tests cannot settle it: {p['why_tests_cant']}

Anchors (files): {', '.join(a['files'])}
Mechanisms: {'; '.join(m['name'] + ' @ ' + m['where'] for m in a.get('mechanism', []))}
State: {'; '.join(s['name'] + ' (' + s['meaning'] + ')' for s in a.get('state', []))}


Your task: produce ONE realistic change to the library's source (non-test .go files) that BREAKS this property while the code still compiles and the ENTIRE existing test suite still passes (go test -vet=off -count=1 ./... must be all "ok"). The change should look like something a developer could plausibly write (a refactor, an optimisation, a "fix", a feature tweak), not sabotage with an obviously malicious name. It must NOT be something ordinary use exposes at once: prefer a change that needs something specific to manifest - an unusual input, a particular multi-step sequence of requests, a failure/error returned by a backend at a particular call, a particular configuration value, or two cooperating sites that each look fine alone.

Also write a demonstration: a Go test file (new *_test.go file in the appropriate package, name it zz_seed_demo_test.go) containing a test named TestSeedDemo that FAILS with your change applied and PASSES without it (on the unchanged tree). The demo may use the mocks package (github.com/volatiletech/authboss/v3/mocks) or its own fakes. Verify both directions yourself. Do NOT use `git stash` (the stash is shared with other worktrees): save your change with `git diff > {root}/{sid}.out/patch.diff`, undo it with `git apply -R`, re-apply with `git apply`.

Deliverables, written into {root}/{sid}.out/ (create the directory):
 1. patch.diff  - output of `git diff` for the source change ONLY (do not include the demo test file in it; keep the demo file untracked or produce the diff before adding it). The patch must apply with `git apply` to a clean checkout.
 2. zz_seed_demo_test.go - the demonstration test, and a one-line note in meta.json of which package directory it belongs in.
 3. meta.json - {{"property":"{pid}","package_dir":"<dir of the demo test relative to repo root>","summary":"<what the change does>","needs":"<what specific input/sequence/fault/configuration is needed for the breakage to manifest>","why_tests_pass":"<why the existing suite does not notice>"}}

Before finishing, double check: (a) with the patch applied `go build ./...` succeeds and `go test -vet=off -count=1 ./...` is all ok when the demo file is absent; (b) with patch + demo: TestSeedDemo fails; (c) without patch + demo: TestSeedDemo passes. Report briefly what you did.


Additional constraint: {len(prev)} previous attempts already produced the following changes for this property; yours must be a DIFFERENT idea from all of them: a different function (preferably a different file or module), a clause of the statement or a value of the quantifier (a configuration, an input class, a module combination) none of them exercised, and a different kind of trigger. {hint}
""" + '\n'.join(prev) + '\n'
    open(os.path.join(root, sid + '.prompt.txt'), 'w').write(txt)
print('prepared', len(props), 'worktrees and prompts under', root)
