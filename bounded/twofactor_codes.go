//go:build verif

package twofactor

// Bounded stand-in for GenerateRecoveryCodes (trusted in the contract file:
// nested loops over a strings.Builder). Assumed contract: without an error
// exactly ten codes are returned. Checked in addition: each is non-empty and
// the ten are pairwise different. Domain: 500 calls.

import (
	"fmt"
	"testing"
)

func TestVerifBounded(t *testing.T) {
	fails := 0
	for i := 0; i < 500; i++ {
		codes, err := GenerateRecoveryCodes()
		ok := err == nil && len(codes) == 10
		seen := map[string]bool{}
		for _, c := range codes {
			if c == "" || seen[c] {
				ok = false
			}
			seen[c] = true
		}
		if !ok {
			fails++
			if fails <= 5 {
				fmt.Printf("VERIF-BOUNDED-FAIL GenerateRecoveryCodes() = (%q, %v): not ten distinct non-empty codes\n", codes, err)
			}
		}
	}
	if fails > 0 {
		t.Fatalf("%d results disagree with the assumed contract", fails)
	}
}
