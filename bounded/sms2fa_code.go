//go:build verif

package sms2fa

// Bounded stand-in for generateRandomCode (trusted in the contract file: a
// loop over a strings.Builder). Assumed contract: without an error the result
// is smsCodeLength (6) decimal digits. Domain: 5000 calls.

import (
	"fmt"
	"testing"
)

func TestVerifBounded(t *testing.T) {
	fails := 0
	for i := 0; i < 5000; i++ {
		code, err := generateRandomCode()
		ok := err == nil && len(code) == 6
		for _, c := range []byte(code) {
			if c < '0' || c > '9' {
				ok = false
			}
		}
		if !ok {
			fails++
			if fails <= 5 {
				fmt.Printf("VERIF-BOUNDED-FAIL generateRandomCode() = (%q, %v): not six decimal digits\n", code, err)
			}
		}
	}
	if fails > 0 {
		t.Fatalf("%d results disagree with the assumed contract", fails)
	}
}
