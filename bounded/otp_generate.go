//go:build verif

package otp

// Bounded stand-in for generateOTP (trusted in the contract file: fmt %x
// formatting and a base64 Encode into a byte buffer). Assumed contract:
// without an error the second result is base64(std) of SHA-512 of the first.
// Domain: 2000 calls.

import (
	"crypto/sha512"
	"encoding/base64"
	"fmt"
	"testing"
)

func TestVerifBounded(t *testing.T) {
	fails := 0
	for i := 0; i < 2000; i++ {
		pw, hash, err := generateOTP()
		sum := sha512.Sum512([]byte(pw))
		if err != nil || pw == "" || hash != base64.StdEncoding.EncodeToString(sum[:]) {
			fails++
			if fails <= 5 {
				fmt.Printf("VERIF-BOUNDED-FAIL generateOTP() = (%q, %q, %v): the hash is not base64(sha512(otp))\n", pw, hash, err)
			}
		}
	}
	if fails > 0 {
		t.Fatalf("%d results disagree with the assumed contract", fails)
	}
}
