//go:build verif

package defaults

// Bounded stand-in for tallyCharacters (trusted in the contract file: a loop
// over the runes of a string is outside the verified subset).
// Assumed contract: the five results are the numbers of runes of s that are
// upper-case letters, other letters, digits, white space and anything else -
// classes as the unicode package defines them, runes as `range` decodes them.
// Domain: every string of one rune from the alphabet below (all code points
// 0..0x24F, samples of other scripts, separators, emoji, the replacement
// character, an invalid byte), every string of two ASCII characters, and each
// alphabet rune appended to a fixed valid password.

import (
	"fmt"
	"testing"
	"unicode"
)

func vbReference(s string) (upper, lower, numeric, symbols, whitespace int) {
	for _, c := range s {
		letter, up, digit, space := unicode.IsLetter(c), unicode.IsUpper(c), unicode.IsDigit(c), unicode.IsSpace(c)
		if letter && up {
			upper++
		}
		if letter && !up {
			lower++
		}
		if !letter && digit {
			numeric++
		}
		if !letter && !digit && space {
			whitespace++
		}
		if !letter && !digit && !space {
			symbols++
		}
	}
	return
}

func TestVerifBounded(t *testing.T) {
	var alphabet []string
	for c := rune(0); c <= 0x24F; c++ {
		alphabet = append(alphabet, string(c))
	}
	for _, c := range []rune{0x391, 0x3B1, 0x410, 0x430, 0x5D0, 0x660, 0x663, 0x6F0, 0x966, 0xFF11, 0xFF21, 0xFF41, 0x1680, 0x2000, 0x2003, 0x2028, 0x2029, 0x202F, 0x205F, 0x3000, 0x85, 0xA0, 0x200B, 0x2460, 0x2164, 0x4E2D, 0x1F600, 0xFFFD, 0x1D7D8, 0x10400, 0x10428} {
		alphabet = append(alphabet, string(c))
	}
	alphabet = append(alphabet, "\xff", "\xc3", "\xe2\x82")
	fails := 0
	check := func(s string) {
		u, l, n, sy, w := tallyCharacters(s)
		ru, rl, rn, rsy, rw := vbReference(s)
		if u != ru || l != rl || n != rn || sy != rsy || w != rw {
			fails++
			if fails <= 10 {
				fmt.Printf("VERIF-BOUNDED-FAIL tallyCharacters(%q) = (upper %d, lower %d, numeric %d, symbols %d, whitespace %d), contract says (%d, %d, %d, %d, %d)\n", s, u, l, n, sy, w, ru, rl, rn, rsy, rw)
			}
		}
	}
	check("")
	for _, a := range alphabet {
		check(a)
		check("Abcdefg1" + a)
		check(a + "Abcdefg1")
	}
	for a := 0; a < 128; a++ {
		for b := 0; b < 128; b++ {
			check(string([]byte{byte(a), byte(b)}))
		}
	}
	if fails > 0 {
		t.Fatalf("%d inputs disagree with the assumed contract", fails)
	}
}
