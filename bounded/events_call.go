//go:build verif

package authboss

// Bounded stand-in for the liveness half of (*Events).call / FireBefore / FireAfter, which the
// loop invariants of the contract cannot state: EVERY registered handler of the event runs, in
// registration order, each seeing whether an earlier one handled the event - unless an earlier
// handler returned an error, which ends the chain. This must not depend on anything about the
// request (a nil request, a request whose context is already cancelled or past its deadline).
// Domain: chains of 0..4 handlers x every handled/error pattern x 4 request states x
// before/after.

import (
	"context"
	"errors"
	"fmt"
	"net/http"
	"net/http/httptest"
	"testing"
	"time"
)

func TestVerifBounded(t *testing.T) {
	fails := 0
	fail := func(format string, a ...interface{}) {
		fails++
		if fails <= 5 {
			fmt.Printf("VERIF-BOUNDED-FAIL Events: "+format+"\n", a...)
		}
	}
	cancelled, cancel := context.WithCancel(context.Background())
	cancel()
	expired, cancel2 := context.WithDeadline(context.Background(), time.Now().Add(-time.Hour))
	defer cancel2()
	requests := map[string]*http.Request{
		"nil request":       nil,
		"plain request":     httptest.NewRequest("POST", "/login", nil),
		"cancelled context": httptest.NewRequest("POST", "/login", nil).WithContext(cancelled),
		"expired deadline":  httptest.NewRequest("POST", "/login", nil).WithContext(expired),
	}
	boom := errors.New("boom")
	for n := 0; n <= 4; n++ {
		// every handler answers one of: 0 = (false, nil), 1 = (true, nil), 2 = (false, boom)
		total := 1
		for i := 0; i < n; i++ {
			total *= 3
		}
		for code := 0; code < total; code++ {
			answers := make([]int, n)
			for i, c := 0, code; i < n; i, c = i+1, c/3 {
				answers[i] = c % 3
			}
			for rname, req := range requests {
				for _, after := range []bool{false, true} {
					ev := NewEvents()
					var ran []int
					var sawHandled []bool
					for i := 0; i < n; i++ {
						i := i
						h := func(w http.ResponseWriter, r *http.Request, handled bool) (bool, error) {
							ran = append(ran, i)
							sawHandled = append(sawHandled, handled)
							switch answers[i] {
							case 1:
								return true, nil
							case 2:
								return false, boom
							}
							return false, nil
						}
						if after {
							ev.After(EventAuth, h)
						} else {
							ev.Before(EventAuth, h)
						}
					}
					var handled bool
					var err error
					if after {
						handled, err = ev.FireAfter(EventAuth, httptest.NewRecorder(), req)
					} else {
						handled, err = ev.FireBefore(EventAuth, httptest.NewRecorder(), req)
					}
					// the expected run: up to and including the first handler that errors
					wantRun, wantHandled, wantErr := 0, false, error(nil)
					for i := 0; i < n; i++ {
						wantRun++
						if answers[i] == 2 {
							wantErr, wantHandled = boom, false
							break
						}
						if answers[i] == 1 {
							wantHandled = true
						}
					}
					desc := fmt.Sprintf("%d handlers answering %v, %s, after=%v", n, answers, rname, after)
					if len(ran) != wantRun {
						fail("%s: %d handlers ran, expected %d (every handler runs unless an earlier one failed)", desc, len(ran), wantRun)
						continue
					}
					seen := false
					for k, i := range ran {
						if i != k {
							fail("%s: handlers ran out of order: %v", desc, ran)
							break
						}
						if sawHandled[k] != seen {
							fail("%s: handler %d was told handled=%v, expected %v", desc, k, sawHandled[k], seen)
							break
						}
						if answers[k] == 1 {
							seen = true
						}
					}
					if err != wantErr || handled != wantHandled {
						fail("%s: result (%v, %v), expected (%v, %v)", desc, handled, err, wantHandled, wantErr)
					}
				}
			}
		}
	}
	if fails > 0 {
		t.Fatalf("%d results disagree with the contract", fails)
	}
}
