//go:build verif

package authboss

// Bounded stand-in for (*Authboss).loadModule (trusted in the contract file: the
// body builds the instance through package reflect, which is outside the
// verified subset). Assumed contract: the module that is initialised and kept
// by an instance is a copy of the registered prototype made for that instance -
// never the prototype itself and never another instance's copy - initialised
// with exactly that instance, for modules registered by pointer and by value.
// Domain: 40 instances x 2 registration kinds.

import (
	"fmt"
	"testing"
)

type vbPtrModule struct {
	ab    *Authboss
	inits int
}

func (m *vbPtrModule) Init(ab *Authboss) error { m.ab = ab; m.inits++; return nil }

type vbValModule struct{ box *vbBox }
type vbBox struct {
	abs []*Authboss
}

func (m vbValModule) Init(ab *Authboss) error { m.box.abs = append(m.box.abs, ab); return nil }

func TestVerifBounded(t *testing.T) {
	proto := &vbPtrModule{}
	box := &vbBox{}
	RegisterModule("zz_verif_ptr", proto)
	RegisterModule("zz_verif_val", vbValModule{box: box})
	fails := 0
	fail := func(format string, a ...interface{}) {
		fails++
		if fails <= 5 {
			fmt.Printf("VERIF-BOUNDED-FAIL loadModule: "+format+"\n", a...)
		}
	}
	seen := map[*vbPtrModule]int{}
	for i := 0; i < 40; i++ {
		ab := New()
		if err := ab.loadModule("zz_verif_ptr"); err != nil {
			fail("instance %d: error %v", i, err)
			continue
		}
		if err := ab.loadModule("zz_verif_val"); err != nil {
			fail("instance %d: error %v", i, err)
			continue
		}
		m, ok := ab.loadedModules["zz_verif_ptr"].(*vbPtrModule)
		if !ok {
			fail("instance %d keeps a %T for a module registered as *vbPtrModule", i, ab.loadedModules["zz_verif_ptr"])
			continue
		}
		if m == proto {
			fail("instance %d initialised the registered prototype itself (every instance then shares one module object)", i)
		}
		if j, dup := seen[m]; dup {
			fail("instances %d and %d share one module object", j, i)
		}
		seen[m] = i
		if m.ab != ab || m.inits != 1 {
			fail("instance %d: its module was initialised %d times, with its own instance: %v", i, m.inits, m.ab == ab)
		}
		if len(box.abs) != i+1 || box.abs[i] != ab {
			fail("instance %d: the by-value module was not initialised exactly once with that instance", i)
		}
	}
	if proto.ab != nil || proto.inits != 0 {
		fail("the registered prototype was initialised (%d times)", proto.inits)
	}
	if fails > 0 {
		t.Fatalf("%d results disagree with the assumed contract", fails)
	}
}
