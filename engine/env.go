package main

// Environment table: assumed contracts of interface methods and external
// functions (DESIGN 2.6), and summaries of in-repo primitives whose bodies
// are proved separately. Every entry used by a run is reported in the
// evidence trusted_base with its contract text.

import (
	"go/types"
	"strings"
)

const abPkg = "github.com/volatiletech/authboss/v3"

func tupleOrOne(vs ...Value) Value {
	if len(vs) == 1 {
		return vs[0]
	}
	return &TupleV{V: vs}
}

// freshErr is an arbitrary error answer of the environment (nil or any error
// value the environment can construct: never an unexported sentinel of the
// repository's packages).
func (ex *Executor) freshErr(st *State, hint string) *Term {
	e := ex.Fresh(hint+"_err", SInt)
	st.Fact(Or(isNilT(e), App("env_error", SBool, e)))
	return e
}

func (ex *Executor) freshRef(st *State, hint string) *Term {
	return ex.Fresh(hint, SInt)
}

func nonNil(t *Term) *Term { return Neq(t, IntLit(0)) }
func isNilT(t *Term) *Term { return Eq(t, IntLit(0)) }

func argTerm(ex *Executor, st *State, v Value) *Term { return ex.asTerm(st, v) }

// ctxUserOf returns the value stored under CTXKeyUser in r's context (term).
func (ex *Executor) ctxLookup(st *State, ctx *CtxV, keyName string) Value {
	for i := len(ctx.KV) - 1; i >= 0; i-- {
		if k, ok := ctx.KV[i].K.(*IfaceV); ok {
			if kt, ok := k.V.(*Term); ok {
				if s, ok := kt.StrVal(); ok && s == keyName && isNamedType(k.Dyn, abPkg, "contextKey") {
					return ctx.KV[i].V
				}
			}
		}
	}
	v := App("ctxval!"+keyName, SInt, ctx.Base)
	if keyName == "pid" {
		// wiring: only authboss stores CTXKeyPID, and it stores a string
		st.Fact(Eq(App("is!string", SBool, v), Neq(v, IntLit(0))))
	}
	return v
}

func isNamedType(t types.Type, pkg, name string) bool {
	n, ok := t.(*types.Named)
	return ok && n.Obj().Pkg() != nil && n.Obj().Pkg().Path() == pkg && n.Obj().Name() == name
}

func (ex *Executor) reqCtx(st *State, r Value) *CtxV {
	switch x := r.(type) {
	case *ReqV:
		if x.Ctx != nil {
			return x.Ctx
		}
		return &CtxV{Base: App("ctx", SInt, x.Base)}
	case *Term:
		return &CtxV{Base: App("ctx", SInt, x)}
	}
	return &CtxV{Base: ex.Fresh("ctx", SInt)}
}

func (ex *Executor) ctxOf(st *State, v Value) *CtxV {
	switch x := v.(type) {
	case *CtxV:
		return x
	case *Term:
		return &CtxV{Base: x}
	}
	return &CtxV{Base: ex.Fresh("ctx", SInt)}
}

func resList(v Value) []Value {
	if v == nil {
		return nil
	}
	if tv, ok := v.(*TupleV); ok {
		return tv.V
	}
	return []Value{v}
}

// storeCall models a storage call: effect with user snapshot, fresh results.
func storeEffect(kind string, nres int, post func(ex *Executor, st *State, c *callCtx, res []Value)) EnvFn {
	return func(ex *Executor, st *State, c *callCtx) []callResult {
		r := ex.havocResults(st, c.Sig, strings.ToLower(strings.ReplaceAll(kind, ".", "_")))
		rs := resList(r)
		if n := c.Sig.Results().Len(); n > 0 && len(rs) == n {
			if types.Identical(c.Sig.Results().At(n-1).Type(), types.Universe.Lookup("error").Type()) {
				if et, ok := rs[n-1].(*Term); ok {
					st.Fact(Or(isNilT(et), App("env_error", SBool, et)))
				}
			}
		}
		args := c.Args
		if len(args) > 0 {
			if _, ok := args[0].(*CtxV); ok {
				args = args[1:] // drop context argument
			} else if t, ok := args[0].(*Term); ok && c.Sig.Params().Len() > 0 && isNamedType(c.Sig.Params().At(0).Type(), "context", "Context") {
				_ = t
				args = args[1:]
			}
		}
		if post != nil {
			post(ex, st, c, rs)
		}
		st.Emit(kind, args, rs, ex.pos(c.Pos))
		return one(st, r)
	}
}

func init() {
	ss := "(" + abPkg + ".ServerStorer)."
	regEnv(ss+"Load", "Load(pid): err==nil => u!=nil && PID(u)==pid && u is a fresh copy (distinct from earlier loads); err arbitrary otherwise",
		storeEffect("Store.Load", 2, func(ex *Executor, st *State, c *callCtx, res []Value) {
			u, err := res[0].(*Term), res[1].(*Term)
			pid := argTerm(ex, st, c.Args[len(c.Args)-1])
			pidArr := ex.userHeapGet(st, st.UHeap, "PID", SStr)
			st.Fact(Implies(isNilT(err), And(nonNil(u), Eq(Select(pidArr, u), pid))))
			// database semantics: a load yields a record distinct from every
			// record obtained earlier on this path
			for _, e := range st.Trace {
				if strings.HasPrefix(e.Kind, "Store.Load") || e.Kind == "Store.New" || e.Kind == "Store.NewFromOAuth2" {
					if len(e.Res) > 0 {
						if o, ok := e.Res[0].(*Term); ok {
							st.Fact(Implies(And(isNilT(err), nonNil(o)), Neq(u, o)))
						}
					}
				}
			}
		}))
	regEnv(ss+"Save", "Save(u): err==nil => record persisted as snapshotted; err!=nil => nothing persisted", storeEffect("Store.Save", 1, nil))
	regEnv("("+abPkg+".CreatingServerStorer).New", "New(): fresh non-nil blank user record", storeEffect("Store.New", 1, func(ex *Executor, st *State, c *callCtx, res []Value) {
		st.Fact(nonNil(res[0].(*Term)))
	}))
	regEnv("("+abPkg+".CreatingServerStorer).Create", "Create(u): err==nil => record created; ErrUserFound => pid exists, nothing changed", storeEffect("Store.Create", 1, nil))
	regEnv("("+abPkg+".ConfirmingServerStorer).LoadByConfirmSelector", "LoadByConfirmSelector(s): err==nil => u!=nil && ConfirmSelector(u)==s",
		storeEffect("Store.LoadByConfirmSelector", 2, func(ex *Executor, st *State, c *callCtx, res []Value) {
			u, err := res[0].(*Term), res[1].(*Term)
			sel := argTerm(ex, st, c.Args[len(c.Args)-1])
			arr := ex.userHeapGet(st, st.UHeap, "ConfirmSelector", SStr)
			st.Fact(Implies(isNilT(err), And(nonNil(u), Eq(Select(arr, u), sel))))
		}))
	regEnv("("+abPkg+".RecoveringServerStorer).LoadByRecoverSelector", "LoadByRecoverSelector(s): err==nil => u!=nil && RecoverSelector(u)==s",
		storeEffect("Store.LoadByRecoverSelector", 2, func(ex *Executor, st *State, c *callCtx, res []Value) {
			u, err := res[0].(*Term), res[1].(*Term)
			sel := argTerm(ex, st, c.Args[len(c.Args)-1])
			arr := ex.userHeapGet(st, st.UHeap, "RecoverSelector", SStr)
			st.Fact(Implies(isNilT(err), And(nonNil(u), Eq(Select(arr, u), sel))))
		}))
	rs := "(" + abPkg + ".RememberingServerStorer)."
	regEnv(rs+"AddRememberToken", "AddRememberToken(pid, hash): err==nil => pair stored", storeEffect("Store.AddRememberToken", 1, nil))
	regEnv(rs+"DelRememberTokens", "DelRememberTokens(pid): err==nil => all pairs of pid removed", storeEffect("Store.DelRememberTokens", 1, nil))
	regEnv(rs+"UseRememberToken", "UseRememberToken(pid, hash): nil iff pair (pid,hash) was stored and unused, and it is deleted; ErrTokenNotFound otherwise", storeEffect("Store.UseRememberToken", 1, nil))
	os := "(" + abPkg + ".OAuth2ServerStorer)."
	regEnv(os+"NewFromOAuth2", "NewFromOAuth2(provider, details): err==nil => fresh non-nil OAuth2 user", storeEffect("Store.NewFromOAuth2", 2, func(ex *Executor, st *State, c *callCtx, res []Value) {
		st.Fact(Implies(isNilT(res[1].(*Term)), nonNil(res[0].(*Term))))
	}))
	regEnv(os+"SaveOAuth2", "SaveOAuth2(u): err==nil => record persisted", storeEffect("Store.SaveOAuth2", 1, nil))

	// hasher
	regEnv("("+abPkg+".Hasher).CompareHashAndPassword", "CompareHashAndPassword(h,p)==nil <=> hash_ok(h,p) (uninterpreted; bcrypt semantics stated in lemma assumptions)",
		func(ex *Executor, st *State, c *callCtx) []callResult {
			h, p := argTerm(ex, st, c.Args[0]), argTerm(ex, st, c.Args[1])
			err := ex.freshErr(st, "cmp")
			st.Fact(Eq(isNilT(err), App("hash_ok", SBool, h, p)))
			st.Emit("Hash.Compare", []Value{h, p}, []Value{err}, ex.pos(c.Pos))
			return one(st, err)
		})
	regEnv("("+abPkg+".Hasher).GenerateHash", "GenerateHash(p): err==nil => result == hash_of(p, salt) with hash_ok(result,p); result is not recoverable to p",
		func(ex *Executor, st *State, c *callCtx) []callResult {
			p := argTerm(ex, st, c.Args[0])
			err := ex.freshErr(st, "gen")
			salt := ex.Fresh("salt", SInt)
			h := App("hash_of", SStr, p, salt)
			st.Fact(App("hash_ok", SBool, h, p))
			st.Fact(Gt(StrLen(h), IntLit(0)))
			res := ex.Fresh("genhash", SStr)
			st.Fact(Implies(isNilT(err), Eq(res, h)))
			st.Emit("Hash.Generate", []Value{p}, []Value{res, err}, ex.pos(c.Pos))
			return one(st, &TupleV{V: []Value{res, err}})
		})

	// body reader, responder, redirector, renderer, mailer
	regEnv("("+abPkg+".BodyReader).Read", "Read(page, r): arbitrary validator or error; on success the validator implements the value interfaces of that page (wiring)",
		func(ex *Executor, st *State, c *callCtx) []callResult {
			v, err := ex.freshRef(st, "values"), ex.freshErr(st, "read")
			st.Fact(Implies(isNilT(err), nonNil(v)))
			st.Emit("Body.Read", []Value{c.Args[0]}, []Value{v, err}, ex.pos(c.Pos))
			return one(st, &TupleV{V: []Value{v, err}})
		})
	regEnv("("+abPkg+".Validator).Validate", "Validate(): arbitrary list of errors (opaque)",
		func(ex *Executor, st *State, c *callCtx) []callResult {
			recv := argTerm(ex, st, c.Recv)
			errs := App("validate", SInt, recv)
			st.Emit("Validate", []Value{recv}, []Value{errs}, ex.pos(c.Pos))
			sl := c.Sig.Results().At(0).Type()
			_ = sl
			return one(st, errs)
		})
	regEnv("("+abPkg+".HTTPResponder).Respond", "Respond(w,r,code,page,data): effect; arbitrary error",
		func(ex *Executor, st *State, c *callCtx) []callResult {
			err := ex.freshErr(st, "respond")
			st.Emit("Respond", []Value{c.Args[2], c.Args[3], c.Args[4], c.Args[0]}, []Value{err}, ex.pos(c.Pos))
			return one(st, err)
		})
	regEnv("("+abPkg+".HTTPRedirector).Redirect", "Redirect(w,r,ro): effect; arbitrary error",
		func(ex *Executor, st *State, c *callCtx) []callResult {
			err := ex.freshErr(st, "redirect")
			st.Emit("Redirect", []Value{c.Args[2], c.Args[0]}, []Value{err}, ex.pos(c.Pos))
			return one(st, err)
		})
	regEnv("("+abPkg+".Renderer).Render", "Render(ctx,page,data): arbitrary output, content type, error",
		func(ex *Executor, st *State, c *callCtx) []callResult {
			out, ct, err := ex.Fresh("rendered", SStr), ex.Fresh("ctype", SStr), ex.freshErr(st, "render")
			st.Emit("Render", []Value{c.Args[1], c.Args[2]}, []Value{&BytesV{T: out}, ct, err}, ex.pos(c.Pos))
			return one(st, &TupleV{V: []Value{&BytesV{T: out}, ct, err}})
		})
	regEnv("("+abPkg+".Renderer).Load", "Load(names...): arbitrary error",
		func(ex *Executor, st *State, c *callCtx) []callResult {
			err := ex.freshErr(st, "rload")
			st.Emit("Render.Load", c.Args, []Value{err}, ex.pos(c.Pos))
			return one(st, err)
		})
	regEnv("("+abPkg+".Mailer).Send", "Send(ctx,email): effect; arbitrary error",
		func(ex *Executor, st *State, c *callCtx) []callResult {
			err := ex.freshErr(st, "mail")
			st.Emit("Mail.Send", []Value{c.Args[1]}, []Value{err}, ex.pos(c.Pos))
			return one(st, err)
		})
	regEnv("("+abPkg+".Logger).Info", "Info(s): effect Log", logEffect("info"))
	regEnv("("+abPkg+".Logger).Error", "Error(s): effect Log", logEffect("error"))
	regEnv("("+abPkg+".ContextLogger).FromContext", "FromContext(ctx): some logger", func(ex *Executor, st *State, c *callCtx) []callResult {
		l := ex.freshRef(st, "logger")
		st.Fact(nonNil(l))
		return one(st, l)
	})
	regEnv("("+abPkg+".RequestLogger).FromRequest", "FromRequest(r): some logger", func(ex *Executor, st *State, c *callCtx) []callResult {
		l := ex.freshRef(st, "logger")
		st.Fact(nonNil(l))
		return one(st, l)
	})
	regEnv("("+abPkg+".Localizer).Localizef", "Localizef(ctx,key,args): deterministic in (key,args)",
		func(ex *Executor, st *State, c *callCtx) []callResult {
			key := argTerm(ex, st, c.Args[1])
			txt := App("localize", SStr, argTerm(ex, st, c.Recv), key, ex.argsDigest(st, c.Args[2]))
			// (an event so that a replay can script the configured localizer's answer; callers of
			// Authboss.Localizef use its summary and never see it)
			st.Emit("Localize", []Value{key}, []Value{txt}, ex.pos(c.Pos))
			return one(st, txt)
		})
	regEnv("("+abPkg+".ErrorHandler).Wrap", "ErrorHandler.Wrap(f): some handler", func(ex *Executor, st *State, c *callCtx) []callResult {
		h := App("errwrap", SInt, argTerm(ex, st, c.Args[0]))
		st.Fact(nonNil(h))
		return one(st, &WrappedH{Kind: "ErrorHandler.Wrap", Inner: c.Args[0], T: h})
	})
	regEnv("("+abPkg+".Router).Get", "Router.Get(path, h): effect", routeEffect("GET"))
	regEnv("("+abPkg+".Router).Post", "Router.Post(path, h): effect", routeEffect("POST"))
	regEnv("("+abPkg+".Router).Delete", "Router.Delete(path, h): effect", routeEffect("DELETE"))

	regEnv("("+abPkg+"/otp/twofactor/sms2fa.SMSSender).Send", "SMSSender.Send(ctx, number, text): effect; arbitrary error",
		func(ex *Executor, st *State, c *callCtx) []callResult {
			err := ex.freshErr(st, "sms")
			st.Emit("SMS.Send", []Value{c.Args[1], c.Args[2]}, []Value{err}, ex.pos(c.Pos))
			return one(st, err)
		})
	// client state (read side)
	regEnv("("+abPkg+".ClientState).Get", "ClientState.Get(key): pure function of (state, key); request-scoped read state never changes during a request",
		func(ex *Executor, st *State, c *callCtx) []callResult {
			s := argTerm(ex, st, c.Recv)
			k := argTerm(ex, st, c.Args[0])
			has := App("cs_has", SBool, s, k)
			val := App("cs_get", SStr, s, k)
			st.Fact(Implies(Not(has), Eq(val, StrLit(""))))
			return one(st, &TupleV{V: []Value{val, has}})
		})
	regEnv("("+abPkg+".ClientStateReadWriter).ReadState", "ReadState(r): arbitrary state or error",
		func(ex *Executor, st *State, c *callCtx) []callResult {
			s, err := ex.freshRef(st, "cstate"), ex.freshErr(st, "readstate")
			st.Emit("CS.ReadState", []Value{c.Recv, c.Args[0]}, []Value{s, err}, ex.pos(c.Pos))
			return one(st, &TupleV{V: []Value{s, err}})
		})
	regEnv("("+abPkg+".ClientStateReadWriter).WriteState", "WriteState(w,state,events): effect; arbitrary error",
		func(ex *Executor, st *State, c *callCtx) []callResult {
			err := ex.freshErr(st, "writestate")
			st.Emit("CS.WriteState", []Value{c.Recv, c.Args[0], c.Args[1], c.Args[2]}, []Value{err}, ex.pos(c.Pos))
			return one(st, err)
		})

	// in-repo primitives summarised (bodies proved under C11)
	regSummary(abPkg+".setState", "setState(w, ctxKey, op, key, val): appends exactly one event {op,key,val} to the session or cookie event list of the request's ClientStateResponseWriter (proved: C11 setState/append_right_list)",
		func(ex *Executor, st *State, c *callCtx) []callResult {
			ck, _ := c.Args[1].(*Term)
			op, _ := c.Args[2].(*Term)
			store := "?"
			if s, ok := ck.StrVal(); ok {
				switch s {
				case "session":
					store = "Sess"
				case "cookie":
					store = "Cook"
				default:
					return one(st, nil) // switch in setState has no default: no effect
				}
			}
			kind := "?"
			if n, ok := op.IntVal(); ok {
				kind = []string{"Put", "Del", "DelAll"}[n]
			}
			if store == "?" || kind == "?" {
				st.Emit("State.Unknown", c.Args[1:], nil, ex.pos(c.Pos))
				return one(st, nil)
			}
			// a missing ClientStateResponseWriter panics (MustClientStateResponseWriter)
			switch kind {
			case "Put":
				st.Emit(store+".Put", []Value{c.Args[3], c.Args[4]}, nil, ex.pos(c.Pos))
			default:
				st.Emit(store+"."+kind, []Value{c.Args[3]}, nil, ex.pos(c.Pos))
			}
			return one(st, nil)
		})
	for _, when := range []string{"Before", "After"} {
		when := when
		regSummary("(*"+abPkg+".Events).Fire"+when, "Events.Fire"+when+"(ev,w,r): runs registered handlers in order; err!=nil => handled==false; handlers may write the context user's lock/confirm fields and nothing else of the record (frame); (Events.call loop contract proved separately)",
			func(ex *Executor, st *State, c *callCtx) []callResult {
				ev := argTerm(ex, st, c.Args[1])
				handled, err := ex.Fresh("handled", SBool), ex.freshErr(st, "fire")
				st.Fact(Implies(nonNil(err), Not(handled)))
				cu := ex.ctxLookup(st, ex.reqCtx(st, c.Args[3]), "user")
				cv := ex.ctxLookup(st, ex.reqCtx(st, c.Args[3]), "values")
				st.Emit("Fire", []Value{StrLit(when), ev, cu, c.Args[2], cv}, []Value{handled, err}, ex.pos(c.Pos))
				// frame: handlers may update these fields of the context user
				for _, f := range []struct{ n, s string }{{"AttemptCount", SInt}, {"LastAttempt", SInt}, {"Locked", SInt}, {"Confirmed", SBool}, {"ConfirmSelector", SStr}, {"ConfirmVerifier", SStr}} {
					st.UHeap[f.n] = ex.Fresh("uh!"+f.n, SArr(SInt, f.s))
				}
				return one(st, &TupleV{V: []Value{handled, err}})
			})
	}
	regSummary("(*"+abPkg+".Events).Before", "Events.Before(ev, h): registers handler (effect)", func(ex *Executor, st *State, c *callCtx) []callResult {
		st.Emit("Events.Register", []Value{StrLit("Before"), c.Args[1], c.Args[2]}, nil, ex.pos(c.Pos))
		return one(st, nil)
	})
	regSummary("(*"+abPkg+".Events).After", "Events.After(ev, h): registers handler (effect)", func(ex *Executor, st *State, c *callCtx) []callResult {
		st.Emit("Events.Register", []Value{StrLit("After"), c.Args[1], c.Args[2]}, nil, ex.pos(c.Pos))
		return one(st, nil)
	})

	regSummary("(*"+abPkg+".Authboss).Localizef", "Authboss.Localizef(ctx,key,args): deterministic text loctext(localizer,key.ID,key.Default,args); texts of different keys differ (loc_key(text)==key.ID: assumption on the configured Localizer and the distinct default strings)",
		func(ex *Executor, st *State, c *callCtx) []callResult {
			a := ex.asTerm(st, c.Args[0])
			var id, def *Term
			if k, ok := c.Args[2].(*StructV); ok && len(k.F) == 2 {
				id, _ = k.F[0].(*Term)
				def, _ = k.F[1].(*Term)
			}
			if id == nil || def == nil {
				st.Note("Localizef with non-struct key")
				return one(st, ex.Fresh("loctext", SStr))
			}
			txt := App("loctext", SStr, a, id, def, ex.argsDigest(st, c.Args[3]))
			st.Fact(Eq(App("loc_key", SStr, txt), id))
			return one(st, txt)
		})
	regSummary(abPkg+".ErrorMap", "ErrorMap(errs): pure data assembly for rendering (opaque function of errs)", func(ex *Executor, st *State, c *callCtx) []callResult {
		return one(st, App("errormap", SInt, ex.asTerm(st, c.Args[0])))
	})
	regStd()
}

// WrappedH is a handler value produced by wrapping (ErrorHandler.Wrap,
// middleware application): kept structurally so route registrations can be
// inspected by contracts.
type WrappedH struct {
	Kind  string
	Inner Value
	Extra []Value
	T     *Term
}

func logEffect(level string) EnvFn {
	return func(ex *Executor, st *State, c *callCtx) []callResult {
		st.Emit("Log", []Value{StrLit(level), c.Args[0]}, nil, ex.pos(c.Pos))
		return one(st, nil)
	}
}

func routeEffect(method string) EnvFn {
	return func(ex *Executor, st *State, c *callCtx) []callResult {
		st.Emit("Router.Register", []Value{StrLit(method), c.Args[0], c.Args[1]}, nil, ex.pos(c.Pos))
		return one(st, nil)
	}
}

// argsDigest turns a variadic []interface{} into one term (for Localizef /
// Sprintf style calls) preserving the argument terms as subterms.
func (ex *Executor) argsDigest(st *State, v Value) *Term {
	switch x := v.(type) {
	case *Term:
		// an operand list that is itself symbolic (a variadic parameter passed on)
		if x.S == SInt {
			return App("args!ref", SInt, x)
		}
	case *SymSliceV:
		if x.Ref != nil {
			return App("args!ref", SInt, x.Ref)
		}
	}
	elems := ex.sliceElems(st, v)
	t := IntLit(0)
	for _, e := range elems {
		et := ex.asTerm(st, e)
		t = App("args!"+et.S, SInt, t, et)
	}
	return t
}

func (ex *Executor) sliceElems(st *State, v Value) []Value {
	if sv, ok := v.(*SliceV); ok && !sv.Nil {
		if av, ok := st.Cells[sv.Cell].(*ArrayV); ok {
			return av.E[sv.Lo:sv.Hi]
		}
	}
	return nil
}
