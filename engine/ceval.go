package main

// Evaluation of contract expressions against one symbolic path.

import (
	"fmt"
	"go/constant"
	"go/types"
	"strings"

	"golang.org/x/tools/go/ssa"
)

type cval struct {
	V    Value
	T    types.Type       // Go type if known
	Heap map[string]*Term // heap the value was bound under (nil: current)
}

type CEnv struct {
	ex         *Executor
	prog       *Program
	cs         *ContractSet
	fn         *ssa.Function
	fc         *FuncContract
	st         *State // state the trace/heap are read from
	vars       map[string]cval
	ret        Value
	panicky    bool
	ref        int // reference event index (-1: none)
	heap       map[string]*Term
	old        bool
	forceFinal bool
	scratch    *State         // state receiving facts generated during evaluation
	exercised  map[*Node]bool // top-level each-forms that matched an event on this path
	seenEach   map[*Node]bool // top-level each-forms met
	depth      int
}

type evalError struct{ msg string }

func (e *evalError) Error() string { return e.msg }

func cfail(format string, a ...interface{}) {
	panic(&evalError{msg: fmt.Sprintf(format, a...)})
}

func (env *CEnv) clone() *CEnv {
	n := *env
	n.vars = make(map[string]cval, len(env.vars)+2)
	for k, v := range env.vars {
		n.vars[k] = v
	}
	return &n
}

// EvalBool evaluates a clause to a boolean term; evaluation errors are
// returned (a contract that cannot be evaluated is a machinery error, never a
// silent pass).
func (env *CEnv) EvalBool(n *Node) (t *Term, err error) {
	defer func() {
		if r := recover(); r != nil {
			if ee, ok := r.(*evalError); ok {
				err = ee
				return
			}
			// (a clause written against other types than the code now has - sorts that do
			// not fit, a field that became something else - fails to evaluate, it does not
			// bring the run down)
			err = fmt.Errorf("clause does not fit the code: %v", r)
		}
	}()
	v := env.eval(n)
	b, ok := v.V.(*Term)
	if !ok || b.S != SBool {
		return nil, fmt.Errorf("clause is not boolean: %s", showValue(v.V))
	}
	return b, nil
}

func (env *CEnv) curHeap() map[string]*Term {
	if env.old {
		return map[string]*Term{}
	}
	if env.forceFinal {
		return env.st.UHeap
	}
	if env.heap != nil {
		return env.heap
	}
	return env.st.UHeap
}

func (env *CEnv) eval(n *Node) cval {
	switch n.Op {
	case "lit-int":
		return cval{V: IntLit(n.N)}
	case "lit-str":
		return cval{V: StrLit(n.S)}
	case "lit-bool":
		return cval{V: BoolLit(n.N == 1)}
	case "nil":
		return cval{V: IntLit(0)}
	case "wild":
		cfail("'_' outside a pattern")
	case "binder":
		cfail("binder ?%s outside a pattern", n.S)
	case "id":
		return env.ident(n.S)
	case "sel":
		return env.sel(n)
	case "index":
		b := env.eval(n.Kids[0])
		i := env.term(n.Kids[1])
		switch x := b.V.(type) {
		case *SymSliceV:
			return cval{V: Select(env.ex.symArr(env.st, x), i)}
		case *Term:
			if strings.HasPrefix(x.S, "(Array") {
				return cval{V: Select(x, i)}
			}
		case *SliceV:
			if k, ok := i.IntVal(); ok {
				if av, ok := env.st.Cells[x.Cell].(*ArrayV); ok && x.Lo+int(k) < x.Hi {
					return cval{V: av.E[x.Lo+int(k)]}
				}
			} else if av, ok := env.st.Cells[x.Cell].(*ArrayV); ok && x.Hi > x.Lo && x.Hi-x.Lo <= 16 {
				// a concrete list under a symbolic (quantified) index: the elements merged
				// into one value by cases on the index (the last element stands for "beyond")
				v := av.E[x.Hi-1]
				for k := x.Hi - 2; k >= x.Lo; k-- {
					v = mergeByCase(env.ex, env.scratchState(), Eq(i, IntLit(int64(k-x.Lo))), av.E[k], v)
				}
				var et types.Type
				if sl, ok := b.T.(*types.Slice); ok {
					et = sl.Elem()
				} else if b.T != nil {
					if sl, ok := b.T.Underlying().(*types.Slice); ok {
						et = sl.Elem()
					}
				}
				return cval{V: v, T: et}
			}
		case *TupleV:
			if k, ok := i.IntVal(); ok && int(k) < len(x.V) {
				return cval{V: x.V[k]}
			}
		}
		cfail("cannot index %s", showValue(b.V))
	case "un":
		x := env.eval(n.Kids[0])
		t, ok := x.V.(*Term)
		if !ok {
			cfail("unary %s on %s", n.S, showValue(x.V))
		}
		if n.S == "!" {
			return cval{V: Not(t)}
		}
		return cval{V: Sub(IntLit(0), t)}
	case "bin":
		return env.bin(n)
	case "call":
		return env.call(n)
	case "each", "before", "after", "emits":
		return cval{V: env.eventForm(n)}
	case "forall", "exists":
		parts := strings.SplitN(n.S, ":", 2)
		sort := map[string]string{"int": SInt, "string": SStr, "bool": SBool, "ref": SInt}[parts[1]]
		if sort == "" {
			cfail("quantifier sort %s", parts[1])
		}
		bv := &Term{Op: "q!" + parts[0], S: sort}
		e2 := env.clone()
		e2.vars[parts[0]] = cval{V: bv}
		body := e2.term(n.Body)
		q := &Term{Op: n.Op + " ((" + bv.Op + " " + sort + "))", Args: []*Term{body}, S: SBool}
		q.str = "(" + n.Op + " ((" + bv.Op + " " + sort + ")) " + body.String() + ")"
		return cval{V: q}
	}
	cfail("cannot evaluate node %s", n.Op)
	return cval{}
}

func (env *CEnv) term(n *Node) *Term {
	v := env.eval(n)
	return env.toTerm(v.V)
}

func (env *CEnv) toTerm(v Value) *Term {
	switch x := v.(type) {
	case *Term:
		return x
	case *TimeV:
		return x.T
	case *BytesV:
		return x.T
	case *BufV:
		return env.ex.bufContent(env.st, x)
	case *IfaceV:
		if t, ok := x.V.(*Term); ok {
			// compare boxed scalars by content
			return t
		}
	case *SymSliceV:
		if x.Ref != nil {
			return x.Ref
		}
	}
	return env.ex.asTerm(env.scratchState(), v)
}

func (env *CEnv) scratchState() *State {
	if env.scratch != nil {
		return env.scratch
	}
	return env.st
}

func (env *CEnv) ident(name string) cval {
	if v, ok := env.vars[name]; ok {
		return v
	}
	switch name {
	case "secrets_clean":
		// C17 information-flow rule over this path (see secretsClean)
		ok, why := secretsClean(env)
		if !ok {
			env.st.Note("secret flow: %s", why)
		}
		return cval{V: BoolLit(ok)}
	case "result":
		if env.panicky {
			cfail("result on a panicking path")
		}
		return cval{V: env.ret, T: resultType(env.fn)}
	case "panics":
		return cval{V: BoolLit(env.panicky)}
	}
	// package-level objects of the function's package, then of authboss
	if v, ok := env.pkgObject(env.fn.Package().Pkg, name); ok {
		return v
	}
	if ab := env.prog.ByPkg[env.prog.Module]; ab != nil {
		if v, ok := env.pkgObject(ab.Pkg, name); ok {
			return v
		}
	}
	cfail("unknown identifier %s", name)
	return cval{}
}

// mergeByCase is iteValue that also merges structs field by field.
func mergeByCase(ex *Executor, st *State, c *Term, a, b Value) Value {
	sa, aok := a.(*StructV)
	sb, bok := b.(*StructV)
	if aok && bok && len(sa.F) == len(sb.F) {
		out := &StructV{T: sa.T}
		for i := range sa.F {
			out.F = append(out.F, mergeByCase(ex, st, c, sa.F[i], sb.F[i]))
		}
		return out
	}
	return ex.iteValue(st, c, a, b)
}

func resultType(fn *ssa.Function) types.Type {
	r := fn.Signature.Results()
	if r.Len() == 1 {
		return r.At(0).Type()
	}
	return r
}

func (env *CEnv) pkgObject(pkg *types.Package, name string) (cval, bool) {
	obj := pkg.Scope().Lookup(name)
	if obj == nil {
		return cval{}, false
	}
	switch o := obj.(type) {
	case *types.Const:
		switch o.Val().Kind() {
		case constant.String:
			return cval{V: StrLit(constant.StringVal(o.Val())), T: o.Type()}, true
		case constant.Int:
			n, _ := constant.Int64Val(o.Val())
			return cval{V: IntLit(n), T: o.Type()}, true
		case constant.Bool:
			return cval{V: BoolLit(constant.BoolVal(o.Val())), T: o.Type()}, true
		}
	case *types.Var:
		l := &LocV{Base: IntLit(0), Path: "glob!" + pkg.Path() + "." + name, T: o.Type()}
		return cval{V: env.ex.loadLoc(env.scratchState(), l), T: o.Type()}, true
	case *types.Func:
		sp := env.prog.SSA.Package(pkg)
		if sp != nil {
			if f := sp.Func(name); f != nil {
				return cval{V: &FuncV{Fn: f}, T: o.Type()}, true
			}
		}
	}
	return cval{}, false
}

func (env *CEnv) sel(n *Node) cval {
	// package-qualified identifier?
	if n.Kids[0].Op == "id" {
		if _, isVar := env.vars[n.Kids[0].S]; !isVar {
			for path, sp := range env.prog.ByPkg {
				_ = path
				if sp.Pkg.Name() == n.Kids[0].S {
					if v, ok := env.pkgObject(sp.Pkg, n.S); ok {
						return v
					}
				}
			}
		}
	}
	base := env.eval(n.Kids[0])
	if iv, ok := base.V.(*IfaceV); ok {
		base = cval{V: iv.V, T: iv.Dyn, Heap: base.Heap}
	}
	// tuple / numeric selectors
	if tv, ok := base.V.(*TupleV); ok {
		var idx int
		if _, err := fmt.Sscanf(n.S, "%d", &idx); err == nil && idx < len(tv.V) {
			var t types.Type
			if tt, ok := base.T.(*types.Tuple); ok && idx < tt.Len() {
				t = tt.At(idx).Type()
			}
			return cval{V: tv.V[idx], T: t}
		}
		cfail("bad tuple selector .%s", n.S)
	}
	if sv, ok := base.V.(*StructV); ok {
		st, _ := sv.T.Underlying().(*types.Struct)
		if st != nil {
			for i := 0; i < st.NumFields(); i++ {
				if st.Field(i).Name() == n.S {
					return cval{V: sv.F[i], T: st.Field(i).Type(), Heap: base.Heap}
				}
			}
		}
		if base.T == nil {
			base.T = sv.T
		}
	}
	if base.T == nil {
		cfail("selector .%s on value of unknown type (%s)", n.S, showValue(base.V))
	}
	obj, index, _ := types.LookupFieldOrMethod(base.T, true, env.fn.Package().Pkg, n.S)
	fld, ok := obj.(*types.Var)
	if !ok || fld == nil {
		cfail("no field %s in %s", n.S, base.T)
	}
	cur := base.V
	curT := base.T
	st := env.scratchState()
	if !env.forceFinal && len(st.Overlay) > 0 {
		// fields of parameters denote their values at entry; final(x.f) reads
		// the value after the function's own writes
		entry := st.Clone()
		entry.Overlay = map[string]Value{}
		entry.Trace = st.Trace
		st = entry
	}
	for _, ix := range index {
		// deref pointers
		var pointee types.Type
		if pt, ok := curT.Underlying().(*types.Pointer); ok {
			pointee = pt.Elem()
		} else {
			pointee = curT
			// a struct value held as StructV
			if sv, ok := cur.(*StructV); ok {
				cur = sv.F[ix]
				curT = pointee.Underlying().(*types.Struct).Field(ix).Type()
				continue
			}
		}
		stt, ok := pointee.Underlying().(*types.Struct)
		if !ok {
			cfail("selector through non-struct %s", pointee)
		}
		f := stt.Field(ix)
		var loc *LocV
		switch b := cur.(type) {
		case *Term:
			loc = &LocV{Base: b, Path: "f!" + typeTag(pointee) + "." + f.Name(), T: f.Type()}
		case *ReqV:
			loc = &LocV{Base: b.Base, Path: "f!http.Request." + f.Name(), T: f.Type()}
		case *LocV:
			loc = &LocV{Base: b.Base, Path: b.Path + "." + f.Name(), Idx: b.Idx, T: f.Type()}
		default:
			cfail("selector .%s on %s", f.Name(), showValue(cur))
		}
		// embedded/inline struct fields stay addresses; others are loaded
		if _, isStruct := f.Type().Underlying().(*types.Struct); isStruct && !isTime(f.Type()) {
			cur = loc
		} else {
			cur = env.ex.loadLoc(st, loc)
		}
		curT = f.Type()
	}
	if l, ok := cur.(*LocV); ok {
		cur = env.ex.loadLoc(st, l)
	}
	return cval{V: cur, T: curT}
}

func (env *CEnv) bin(n *Node) cval {
	switch n.S {
	case "&&":
		l := env.term(n.Kids[0])
		if l == TFalse {
			return cval{V: TFalse}
		}
		return cval{V: And(l, env.term(n.Kids[1]))}
	case "||":
		l := env.term(n.Kids[0])
		if l == TTrue {
			return cval{V: TTrue}
		}
		return cval{V: Or(l, env.term(n.Kids[1]))}
	case "==>":
		l := env.term(n.Kids[0])
		if l == TFalse {
			return cval{V: TTrue}
		}
		return cval{V: Implies(l, env.guardedTerm(n.Kids[1]))}
	case "<=>":
		return cval{V: Eq(env.term(n.Kids[0]), env.term(n.Kids[1]))}
	}
	a, b := env.eval(n.Kids[0]), env.eval(n.Kids[1])
	switch n.S {
	case "==", "!=":
		e := env.equal(a.V, b.V)
		if n.S == "!=" {
			e = Not(e)
		}
		return cval{V: e}
	}
	ta, tb := env.toTerm(a.V), env.toTerm(b.V)
	switch n.S {
	case "<":
		return cval{V: Lt(ta, tb)}
	case "<=":
		return cval{V: Le(ta, tb)}
	case ">":
		return cval{V: Gt(ta, tb)}
	case ">=":
		return cval{V: Ge(ta, tb)}
	case "+":
		if ta.S == SStr {
			return cval{V: StrCat(ta, tb)}
		}
		return cval{V: Add(ta, tb)}
	case "++":
		return cval{V: StrCat(ta, tb)}
	case "-":
		return cval{V: Sub(ta, tb)}
	case "*":
		return cval{V: Mul(ta, tb)}
	case "/":
		return cval{V: Builtin("div", SInt, ta, tb)}
	case "%":
		return cval{V: Builtin("mod", SInt, ta, tb)}
	}
	cfail("operator %s", n.S)
	return cval{}
}

func (env *CEnv) equal(a, b Value) *Term {
	ta, aok := a.(*Term)
	tb, bok := b.(*Term)
	if aok && bok {
		if ta.S != tb.S {
			cfail("comparison of different sorts: %s:%s vs %s:%s", ta, ta.S, tb, tb.S)
		}
		return Eq(ta, tb)
	}
	// comparison with nil of a non-scalar representation
	if bok && isNilConst(tb) && !aok {
		return env.ex.isNil(env.scratchState(), a)
	}
	if aok && isNilConst(ta) && !bok {
		return env.ex.isNil(env.scratchState(), b)
	}
	// boxed scalars compare by content against plain scalars
	if ia, ok := a.(*IfaceV); ok && bok {
		if it, ok := ia.V.(*Term); ok && it.S == tb.S {
			return Eq(it, tb)
		}
	}
	if ib, ok := b.(*IfaceV); ok && aok {
		if it, ok := ib.V.(*Term); ok && it.S == ta.S {
			return Eq(ta, it)
		}
	}
	xa, xb := env.toTermLoose(a), env.toTermLoose(b)
	if xa != nil && xb != nil && xa.S == xb.S {
		return Eq(xa, xb)
	}
	return env.ex.valuesEqual(env.scratchState(), a, b)
}

func (env *CEnv) toTermLoose(v Value) *Term {
	switch x := v.(type) {
	case *Term:
		return x
	case *TimeV:
		return x.T
	case *BytesV:
		return x.T
	case *ReqV, *CtxV, *PtrV, *LocV, *MapV:
		return env.ex.asTerm(env.scratchState(), v)
	case *SymSliceV:
		// an opaque slice that was neither resliced nor written compares by identity
		if x.Ref != nil && x.Off == nil && x.Cell == 0 {
			return x.Ref
		}
	}
	return nil
}

// ---------------------------------------------------------------------------
// event forms

func kindMatches(pat, kind string) bool {
	if pat == kind {
		return true
	}
	if strings.HasSuffix(pat, ".any") {
		return strings.HasPrefix(kind, strings.TrimSuffix(pat, "any"))
	}
	return false
}

func (env *CEnv) eventForm(n *Node) *Term {
	trace := env.st.Trace
	lo, hi := 0, len(trace)
	switch n.Op {
	case "before":
		if env.ref >= 0 {
			hi = env.ref
		}
	case "after":
		if env.ref >= 0 {
			lo = env.ref + 1
		}
	}
	acc := TFalse
	if n.Op == "each" {
		acc = TTrue
	}
	top := n.Op == "each" && env.ref < 0 && env.seenEach != nil
	if top {
		env.seenEach[n] = true
	}
	for i := lo; i < hi; i++ {
		e := trace[i]
		if !kindMatches(n.S, e.Kind) {
			continue
		}
		e2 := env.clone()
		e2.ref = i
		e2.heap = e.Heap
		e2.old = false
		cond := TTrue
		if len(n.Kids) > len(e.Args) {
			cfail("event %s has %d args, pattern has %d", e.Kind, len(e.Args), len(n.Kids))
		}
		for k, pat := range n.Kids {
			cond = And(cond, e2.match(pat, e.Args[k], e.Heap))
		}
		if len(n.Res) > len(e.Res) {
			cfail("event %s has %d results, pattern has %d", e.Kind, len(e.Res), len(n.Res))
		}
		for k, pat := range n.Res {
			cond = And(cond, e2.match(pat, e.Res[k], e.Heap))
		}
		body := TTrue
		if n.Body != nil && cond != TFalse {
			body = e2.term(n.Body)
		}
		if n.Op == "each" {
			if top && cond != TFalse {
				env.exercised[n] = true
			}
			acc = And(acc, Implies(cond, body))
		} else {
			acc = Or(acc, And(cond, body))
		}
	}
	return acc
}

func (env *CEnv) match(pat *Node, v Value, heap map[string]*Term) *Term {
	switch pat.Op {
	case "wild":
		return TTrue
	case "binder":
		var t types.Type
		if sv, ok := v.(*StructV); ok {
			t = sv.T
		}
		env.vars[pat.S] = cval{V: v, T: t, Heap: heap}
		return TTrue
	}
	pv := env.eval(pat)
	return env.equal(pv.V, v)
}

// ---------------------------------------------------------------------------
// calls: spec functions

func (env *CEnv) call(n *Node) cval {
	name := n.S
	// macros
	if m := env.macro(name); m != nil {
		if len(m.Params) != len(n.Kids) {
			cfail("spec %s expects %d args", name, len(m.Params))
		}
		e2 := env.clone()
		for i, p := range m.Params {
			e2.vars[p] = env.eval(n.Kids[i])
		}
		env.depth++
		if env.depth > 50 {
			cfail("spec recursion too deep in %s", name)
		}
		r := e2.eval(m.Body)
		env.depth--
		return r
	}
	switch name {
	case "old":
		e2 := env.clone()
		e2.old = true
		e2.heap = nil
		return e2.eval(n.Kids[0])
	case "final":
		e2 := env.clone()
		e2.old = false
		e2.forceFinal = true
		e2.heap = nil
		return e2.eval(n.Kids[0])
	case "fname":
		v := env.eval(n.Kids[0])
		return cval{V: StrLit(funcValueName(v.V))}
	case "len":
		v := env.eval(n.Kids[0])
		return cval{V: env.ex.lenOf(env.scratchState(), v.V)}
	case "text":
		// text(sb): what a local strings.Builder holds (see the Builder entries of the environment)
		v := env.eval(n.Kids[0])
		if p, ok := v.V.(*PtrV); ok {
			if sv, ok := env.ex.load(env.scratchState(), p, nil).(*StructV); ok && len(sv.F) == 2 {
				if b, ok := sv.F[1].(*BytesV); ok {
					return cval{V: b.T}
				}
			}
		}
		cfail("text(%s): not a local strings.Builder", showValue(v.V))
	case "ite":
		c := env.term(n.Kids[0])
		a, b := env.eval(n.Kids[1]), env.eval(n.Kids[2])
		return cval{V: env.ex.iteValue(env.scratchState(), c, a.V, b.V), T: a.T}
	case "sess", "cookie", "sess_has", "cookie_has":
		r := env.eval(n.Kids[0])
		k := env.term(n.Kids[1])
		ctx := env.ex.reqCtx(env.scratchState(), r.V)
		key := "session"
		if strings.HasPrefix(name, "cookie") {
			key = "cookie"
		}
		stv := env.ex.asTerm(env.scratchState(), env.ex.ctxLookup(env.scratchState(), ctx, key))
		if strings.HasSuffix(name, "_has") {
			return cval{V: And(Neq(stv, IntLit(0)), App("cs_has", SBool, stv, k))}
		}
		return cval{V: Ite(Neq(stv, IntLit(0)), App("cs_get", SStr, stv, k), StrLit(""))}
	case "ctxuser", "ctxpid", "ctxvalues", "ctxsession", "ctxcookie", "ctxdata":
		r := env.eval(n.Kids[0])
		ctx := env.ex.reqCtx(env.scratchState(), r.V)
		return cval{V: env.ex.ctxLookup(env.scratchState(), ctx, strings.TrimPrefix(name, "ctx"))}
	case "contains", "prefixof", "suffixof":
		a, b := env.term(n.Kids[0]), env.term(n.Kids[1])
		if x, ok := a.StrVal(); ok {
			if y, ok := b.StrVal(); ok {
				switch name {
				case "contains":
					return cval{V: BoolLit(strings.Contains(x, y))}
				case "prefixof":
					return cval{V: BoolLit(strings.HasPrefix(y, x))}
				case "suffixof":
					return cval{V: BoolLit(strings.HasSuffix(y, x))}
				}
			}
		}
		return cval{V: Builtin("str."+name, SBool, a, b)}
	case "substr":
		return cval{V: StrSub(env.term(n.Kids[0]), env.term(n.Kids[1]), env.term(n.Kids[2]))}
	case "indexof":
		return cval{V: Builtin("str.indexof", SInt, env.term(n.Kids[0]), env.term(n.Kids[1]), IntLit(0))}
	case "in_re":
		// in_re(s, "<smt regex>")
		re, ok := n.Kids[1], true
		if re.Op != "lit-str" || !ok {
			cfail("in_re needs a literal regex")
		}
		rt := &Term{Op: re.S, S: "RegLan"}
		return cval{V: Builtin("str.in_re", SBool, env.term(n.Kids[0]), rt)}
	case "max":
		a, b := env.term(n.Kids[0]), env.term(n.Kids[1])
		return cval{V: Ite(Ge(a, b), a, b)}
	case "min":
		a, b := env.term(n.Kids[0]), env.term(n.Kids[1])
		return cval{V: Ite(Le(a, b), a, b)}
	case "join":
		v := env.eval(n.Kids[0])
		sep := env.term(n.Kids[1])
		xs := env.ex.symSliceArg(env.scratchState(), v.V)
		if xs == nil {
			cfail("join of %s", showValue(v.V))
		}
		return cval{V: App("str_join", SStr, env.ex.symArr(env.st, xs), xs.Len, sep)}
	case "elem":
		// elem(slice, i)
		v := env.eval(n.Kids[0])
		if ref, ok := v.V.(*Term); ok && ref.S == SInt && v.T != nil {
			// opaque slice of composites: element i as a value
			if sl, ok := v.T.Underlying().(*types.Slice); ok {
				loc := &LocV{Base: ref, Path: "elem!" + typeTag(sl.Elem()), Idx: []*Term{env.term(n.Kids[1])}, T: sl.Elem()}
				return cval{V: env.ex.loadLoc(env.scratchState(), loc), T: sl.Elem()}
			}
		}
		xs := env.ex.symSliceArg(env.scratchState(), v.V)
		if xs == nil {
			cfail("elem of %s", showValue(v.V))
		}
		return cval{V: Select(env.ex.symArr(env.st, xs), env.term(n.Kids[1]))}
	case "encode_values1":
		// url.Values{k: v}.Encode() as the executor models it
		k, v := env.term(n.Kids[0]), env.term(n.Kids[1])
		return cval{V: App("values_encode", SStr, App("mapput!String!String", SInt, IntLit(0), k, v))}
	case "path_join":
		return cval{V: App("path_join", SStr, env.term(n.Kids[0]), env.term(n.Kids[1]))}
	case "bound":
		// bound(closure, "name"): the value a closure captured for a free variable
		v := env.eval(n.Kids[0])
		if iv, isI := v.V.(*IfaceV); isI {
			// a closure converted to a named function type held in an interface (http.HandlerFunc)
			v = cval{V: iv.V, T: iv.Dyn}
		}
		cv, ok := v.V.(*ClosureV)
		if !ok {
			cfail("bound() of non-closure %s", showValue(v.V))
		}
		for i, fv := range cv.Fn.FreeVars {
			if fv.Name() == n.Kids[1].S && i < len(cv.Bind) {
				b := cv.Bind[i]
				if p, ok := b.(*PtrV); ok {
					return cval{V: env.ex.load(env.st, p, nil), T: fv.Type().(*types.Pointer).Elem()}
				}
				return cval{V: b, T: fv.Type()}
			}
		}
		cfail("closure %s has no free variable %s", cv.Fn.Name(), n.Kids[1].S)
	case "layers":
		v := env.eval(n.Kids[0])
		return cval{V: StrLit(handlerLayers(env, v.V, 0))}
	case "sess_after", "sess_has_after", "ghost", "ghost_after":
		r := env.eval(n.Kids[0])
		k := env.term(n.Kids[1])
		ctx := env.ex.reqCtx(env.scratchState(), r.V)
		stv := env.ex.asTerm(env.scratchState(), env.ex.ctxLookup(env.scratchState(), ctx, "session"))
		if name == "ghost" || name == "ghost_after" {
			key := n.Kids[1].S
			val := App("cs_get", SStr, stv, StrLit("ghost!"+key))
			if name == "ghost_after" {
				for _, e := range env.st.Trace {
					if e.Kind != "Ghost.Set" {
						continue
					}
					if nm, ok := e.Args[0].(*Term); ok {
						if s, _ := nm.StrVal(); s == key {
							val = Ite(e.Args[2].(*Term), env.toTerm(e.Args[1]), val)
						}
					}
				}
			}
			return cval{V: val}
		}
		has := And(Neq(stv, IntLit(0)), App("cs_has", SBool, stv, k))
		val := Ite(Neq(stv, IntLit(0)), App("cs_get", SStr, stv, k), StrLit(""))
		for _, e := range env.st.Trace {
			switch e.Kind {
			case "Sess.Put":
				eq := Eq(env.toTerm(e.Args[0]), k)
				has = Ite(eq, TTrue, has)
				val = Ite(eq, env.toTerm(e.Args[1]), val)
			case "Sess.Del":
				eq := Eq(env.toTerm(e.Args[0]), k)
				has = Ite(eq, TFalse, has)
				val = Ite(eq, StrLit(""), val)
			case "Sess.DelAll":
				keeps := App("wl_keeps", SBool, env.toTerm(e.Args[0]), k)
				has = And(has, keeps)
				val = Ite(keeps, val, StrLit(""))
			}
		}
		if name == "sess_has_after" {
			return cval{V: has}
		}
		return cval{V: val}
	case "list_at":
		// list_at(ptr, "field"): the value of a field of the ClientStateResponseWriter behind ptr
		b := env.term(n.Kids[0])
		return cval{V: App("f!authboss.ClientStateResponseWriter."+n.Kids[1].S, SInt, b)}
	case "loc":
		// loc(ab, TxtKey): the text Authboss.Localizef yields for a key without arguments
		a := env.term(n.Kids[0])
		k := env.eval(n.Kids[1])
		sv, ok := k.V.(*StructV)
		if !ok || len(sv.F) != 2 {
			cfail("loc: second argument must be a LocalizationKey")
		}
		return cval{V: App("loctext", SStr, a, env.toTerm(sv.F[0]), env.toTerm(sv.F[1]), IntLit(0))}
	case "maplen":
		m := env.eval(n.Kids[0])
		return cval{V: env.ex.lenOf(env.scratchState(), m.V)}
	case "offsite":
		// offsite(s): a browser resolves s to another origin (DESIGN appendix C):
		// optional leading C0/space, tab/newline/CR ignored, then a scheme
		// "alpha (alnum|+|-|.)* :" or two slashes/backslashes.
		return cval{V: Builtin("str.in_re", SBool, beforeQuery(env.term(n.Kids[0])), &Term{Op: offsiteRegex, S: "RegLan"})}
	case "offsite_cleaned":
		// offsite_cleaned(s): where a browser ends up when s is sent through
		// net/http.Redirect, which path.Clean-s a scheme-less target first: Clean
		// only removes segments, so the result starts with "/\" (read as "//" by
		// browsers) exactly when some surviving segment of the path part starts
		// with a backslash - over-approximated by "/\" occurring before the
		// first '?'. Everything offsite(s) covers stays covered.
		s := beforeQuery(env.term(n.Kids[0]))
		return cval{V: Or(Builtin("str.in_re", SBool, s, &Term{Op: offsiteRegex, S: "RegLan"}),
			Builtin("str.in_re", SBool, s, &Term{Op: `(re.++ (re.* (re.diff re.allchar (str.to_re "?"))) (str.to_re "/\u{5c}") re.all)`, S: "RegLan"}))}
	case "implements":
		// implements(x, "pkg.Iface"): the dynamic-type predicate the executor uses for x.(pkg.Iface)
		x := env.term(n.Kids[0])
		return cval{V: App("is!"+n.Kids[1].S, SBool, x)}
	case "form":
		r := env.eval(n.Kids[0])
		return cval{V: App("form_value", SStr, reqBase(env.ex, env.scratchState(), r.V), env.term(n.Kids[1]))}
	case "asstring":
		// the string held by an interface value (x.(string))
		x := env.term(n.Kids[0])
		return cval{V: App("unbox!String!string", SStr, x)}
	case "deref":
		v := env.eval(n.Kids[0])
		pt, ok := v.T.Underlying().(*types.Pointer)
		if v.T == nil || !ok {
			cfail("deref of non-pointer")
		}
		return cval{V: env.ex.load(env.scratchState(), v.V, pt.Elem()), T: pt.Elem()}
	case "b64std", "b64url", "b64std_dec", "b64url_dec":
		x := env.term(n.Kids[0])
		enc := "std"
		if strings.HasPrefix(name, "b64url") {
			enc = "url"
		}
		if strings.HasSuffix(name, "_dec") {
			return cval{V: App("b64dec!"+enc, SStr, x)}
		}
		return cval{V: App("b64enc!"+enc, SStr, x)}
	case "b64std_ok", "b64url_ok":
		x := env.term(n.Kids[0])
		return cval{V: App("b64ok!"+name[3:6], SBool, x)}
	case "val":
		// val(values, "GetPassword"): accessor of the request-values object
		v := env.term(n.Kids[0])
		m := n.Kids[1].S
		sort := SStr
		if len(n.Kids) > 2 {
			sort = map[string]string{"int": SInt, "bool": SBool, "string": SStr, "ref": SInt}[n.Kids[2].S]
		}
		return cval{V: App("val!"+m, sort, v)}
	case "fmtstr":
		// fmtstr(format, args): the text fmt.Sprintf(format, args...) as the executor models it
		f := env.eval(n.Kids[0])
		a := env.eval(n.Kids[1])
		return cval{V: env.ex.sprintf(env.scratchState(), f.V, a.V)}
	case "dyntype":
		// dyntype(v): name of the dynamic type held by an interface value ("" if unknown)
		v := env.eval(n.Kids[0])
		if iv, ok := v.V.(*IfaceV); ok && iv.Dyn != nil {
			t := iv.Dyn
			if p, ok := t.(*types.Pointer); ok {
				t = p.Elem()
			}
			if nt, ok := t.(*types.Named); ok {
				return cval{V: StrLit(nt.Obj().Name())}
			}
		}
		return cval{V: StrLit("")}
	case "dyn":
		// dyn(v, "A.B"): field A.B of the struct held by an interface value
		v := env.eval(n.Kids[0])
		iv, ok := v.V.(*IfaceV)
		if !ok {
			cfail("dyn of a value that is not a known interface value: %s", showValue(v.V))
		}
		cur, ct := iv.V, iv.Dyn
		for _, name := range strings.Split(n.Kids[1].S, ".") {
			sv, ok := cur.(*StructV)
			stt, ok2 := ct.Underlying().(*types.Struct)
			if !ok || !ok2 {
				cfail("dyn: %s has no field %s", showValue(cur), name)
			}
			found := false
			for i := 0; i < stt.NumFields(); i++ {
				if stt.Field(i).Name() == name {
					cur, ct, found = sv.F[i], stt.Field(i).Type(), true
					break
				}
			}
			if !found {
				cfail("dyn: no field %s", name)
			}
		}
		return cval{V: cur, T: ct}
	case "field":
		// field(u, "Name") - generic record accessor
		u := env.term(n.Kids[0])
		f := n.Kids[1].S
		return cval{V: env.userField(f, u)}
	case "query_only":
		// query_only(t): text that comes from the request occurs in t only after a
		// literal '?' (in the query part of a target whose path is configured)
		return cval{V: BoolLit(queryOnly(env.term(n.Kids[0])))}
	case "tainted":
		// tainted(t, src): src occurs in t outside a sanitiser
		return cval{V: BoolLit(taintOccurs(env.term(n.Kids[0]), env.term(n.Kids[1])))}
	case "digest":
		v := env.eval(n.Kids[0])
		return cval{V: env.ex.valueDigest(env.scratchState(), v.V)}
	case "mapget":
		m := env.eval(n.Kids[0])
		k := env.eval(n.Kids[1])
		mt, _ := m.T.(*types.Map)
		if mt == nil {
			if m.T != nil {
				mt, _ = m.T.Underlying().(*types.Map)
			}
		}
		if md, _ := env.ex.mapData(env.scratchState(), m.V); md != nil && md.T != nil {
			mt = md.T
		}
		if mt == nil {
			// HTMLData-like default
			mt = types.NewMap(types.Typ[types.String], types.NewInterfaceType(nil, nil))
		}
		if t, isT := m.V.(*Term); isT && t.S != SInt {
			cfail("mapget of a value that is no map (%s)", t.S)
		}
		v, _ := env.ex.mapLookup(env.scratchState(), m.V, k.V, mt)
		return cval{V: v, T: mt.Elem()}
	case "maphas":
		m := env.eval(n.Kids[0])
		k := env.eval(n.Kids[1])
		mt := types.NewMap(types.Typ[types.String], types.NewInterfaceType(nil, nil))
		if md, _ := env.ex.mapData(env.scratchState(), m.V); md != nil && md.T != nil {
			mt = md.T
		} else if m.T != nil {
			if t, ok := m.T.Underlying().(*types.Map); ok {
				mt = t
			}
		}
		if t, isT := m.V.(*Term); isT && t.S != SInt {
			cfail("maphas of a value that is no map (%s)", t.S)
		}
		_, has := env.ex.mapLookup(env.scratchState(), m.V, k.V, mt)
		return cval{V: has}
	}
	// user-record accessor: Name(u). A variable bound by an event pattern
	// carries the record heap of that event (the snapshot passed to Save, the
	// database state at Load, ...); old(..) and final(..) override it.
	if len(n.Kids) == 1 {
		if _, ok := env.prog.userFieldSort(name); ok {
			uv := env.eval(n.Kids[0])
			u := env.toTerm(uv.V)
			if uv.Heap != nil && !env.old && !env.forceFinal {
				e2 := env.clone()
				e2.heap = uv.Heap
				return cval{V: e2.userField(name, u)}
			}
			return cval{V: env.userField(name, u)}
		}
	}
	// declared uninterpreted function of the environment model
	if d := lookupDecl(name); d != nil {
		if len(d.Args) != len(n.Kids) {
			cfail("%s expects %d args", name, len(d.Args))
		}
		var ts []*Term
		for i, k := range n.Kids {
			t := env.term(k)
			if t.S != d.Args[i] {
				cfail("%s arg %d: sort %s, want %s", name, i, t.S, d.Args[i])
			}
			ts = append(ts, t)
		}
		return cval{V: App(name, d.Ret, ts...)}
	}
	if sig, ok := specSigs[name]; ok {
		var ts []*Term
		for _, k := range n.Kids {
			ts = append(ts, env.term(k))
		}
		return cval{V: App(name, sig, ts...)}
	}
	cfail("unknown function %s", name)
	return cval{}
}

// specSigs: result sorts of spec functions that contracts may mention before
// any path has declared them.
var specSigs = map[string]string{
	"hash_ok": SBool, "sha512": SStr, "hash_of": SStr, "localize": SStr, "totp_ok": SBool,
	"b64enc!std": SStr, "b64enc!url": SStr, "b64dec!std": SStr, "b64dec!url": SStr,
	"json_ok": SBool, "json_str": SStr, "time_format": SStr, "time_parse": SInt, "time_parse_ok": SBool, "fresh_error": SBool,
	"regex_match": SBool, "count_upper": SInt, "count_lower": SInt, "count_numeric": SInt, "count_symbols": SInt, "count_whitespace": SInt,
	"header_get": SStr, "str_lower": SStr, "filepath_base": SStr, "str_split": SArr(SInt, SStr), "str_split_len": SInt, "str_join": SStr, "itoa": SStr, "atoi": SInt,
}

func (env *CEnv) macro(name string) *SpecMacro {
	if m := env.cs.Macros[env.fc.Pkg+":"+name]; m != nil {
		return m
	}
	if m := env.cs.Macros[":"+name]; m != nil {
		return m
	}
	return nil
}

func (env *CEnv) userField(field string, u *Term) *Term {
	sort, ok := env.prog.userFieldSort(field)
	if !ok {
		cfail("unknown user-record field %s", field)
	}
	arr := env.ex.userHeapGet(env.st, env.curHeap(), field, sort)
	return Select(arr, u)
}

// fromRequest: the term mentions something the client supplied.
func fromRequest(t *Term) bool {
	if t.Sym {
		op := strings.Trim(t.Op, "|")
		if op == "form_value" || op == "cs_get" || strings.HasPrefix(op, "f!url.URL.") || strings.HasPrefix(op, "f!http.Request.") || strings.HasPrefix(op, "val!Get") || op == "header_get" {
			return true
		}
	}
	for _, a := range t.Args {
		if fromRequest(a) {
			return true
		}
	}
	return false
}

// rawFromRequest: request text occurs in t outside url.QueryEscape / Values.Encode.
func rawFromRequest(t *Term) bool {
	if t.Sym {
		op := strings.Trim(t.Op, "|")
		if op == "query_escape" || op == "values_encode" {
			return false
		}
		if op == "form_value" || op == "cs_get" || strings.HasPrefix(op, "f!url.URL.") || strings.HasPrefix(op, "f!http.Request.") || strings.HasPrefix(op, "val!Get") || op == "header_get" {
			return true
		}
	}
	for _, a := range t.Args {
		if rawFromRequest(a) {
			return true
		}
	}
	return false
}

func queryOnly(t *Term) bool {
	var segs []*Term
	var flat func(t *Term)
	flat = func(t *Term) {
		switch {
		case !t.Sym && t.Op == "str.++":
			for _, a := range t.Args {
				flat(a)
			}
		case t.Sym && strings.Trim(t.Op, "|") == "path_join":
			// path.Join cleans the whole result ("..", "//"), so request text inside it
			// can only stay in the query part when it was escaped (no '/' left in it)
			for i, a := range t.Args {
				if i > 0 {
					segs = append(segs, StrLit("/"))
				}
				if rawFromRequest(a) {
					segs = append(segs, &Term{Op: "unescaped!request!text", S: SStr, Sym: true, Args: []*Term{a}})
					continue
				}
				flat(a)
			}
		default:
			segs = append(segs, t)
		}
	}
	flat(t)
	seenQ := false
	for _, s := range segs {
		if lit, ok := s.StrVal(); ok {
			if strings.Contains(lit, "?") {
				seenQ = true
			}
			continue
		}
		if s.Sym && s.Op == "unescaped!request!text" {
			return false
		}
		if fromRequest(s) && !seenQ {
			return false
		}
	}
	return true
}

// taintOccurs reports whether src occurs as a subterm of t outside the
// sanitisers (hash_of, sha512).
func taintOccurs(t, src *Term) bool {
	if t.String() == src.String() {
		return true
	}
	if t.Sym && (t.Op == "hash_of" || t.Op == "sha512") {
		return false
	}
	for _, a := range t.Args {
		if taintOccurs(a, src) {
			return true
		}
	}
	return false
}

// funcValueName names a function value: "(*Lock).BeforeAuth" for bound
// methods, "Middleware#1" style keys for closures.
func funcValueName(v Value) string {
	var fn *ssa.Function
	switch x := v.(type) {
	case *ClosureV:
		fn = x.Fn
	case *FuncV:
		fn = x.Fn
	case *BoundV:
		fn = x.Fn
	case *WrappedH:
		return x.Kind + "(" + funcValueName(x.Inner) + ")"
	case *IfaceV:
		return funcValueName(x.V)
	}
	if fn == nil {
		return "?" + showValue(v)
	}
	name := fn.Name()
	name = strings.TrimSuffix(name, "$bound")
	if fn.Signature.Recv() == nil && strings.HasSuffix(fn.Name(), "$bound") && len(fn.FreeVars) == 1 {
		// bound method wrapper: free variable is the receiver
		t := fn.FreeVars[0].Type()
		ptr := ""
		if pt, ok := t.(*types.Pointer); ok {
			ptr = "*"
			t = pt.Elem()
		}
		if n, ok := t.(*types.Named); ok {
			return "(" + ptr + n.Obj().Name() + ")." + name
		}
	}
	if fn.Parent() != nil {
		return funcValueName(&FuncV{Fn: fn.Parent()}) + "#" + fn.Name()
	}
	return name
}

// handlerLayers describes how a route handler value was assembled, outermost
// layer first: "MW2(reqs=1,mountPathed=true)>EmailVerify.Wrap>ErrorHandler.Wrap>(*TOTP).PostSetup".
func handlerLayers(env *CEnv, v Value, depth int) string {
	if depth > 8 {
		return "..."
	}
	switch x := v.(type) {
	case *IfaceV:
		return handlerLayers(env, x.V, depth)
	case *WrappedH:
		return x.Kind + ">" + handlerLayers(env, x.Inner, depth+1)
	case *ClosureV:
		name := x.Fn.Name()
		bind := func(n string) Value {
			for i, fv := range x.Fn.FreeVars {
				if fv.Name() == n && i < len(x.Bind) {
					if p, ok := x.Bind[i].(*PtrV); ok {
						return env.ex.load(env.st, p, nil)
					}
					return x.Bind[i]
				}
			}
			return nil
		}
		switch {
		case name == "MountedMiddleware2$1$1":
			return fmt.Sprintf("MW2(reqs=%s,mountPathed=%s)>%s", showValue(bind("reqs")), showValue(bind("mountPathed")), handlerLayers(env, bind("next"), depth+1))
		case name == "Wrap$1" && x.Fn.Parent() != nil && strings.Contains(x.Fn.Parent().String(), "EmailVerify"):
			return "EmailVerify.Wrap>" + handlerLayers(env, bind("handler"), depth+1)
		}
		return funcValueName(x)
	}
	return funcValueName(v)
}

// beforeQuery: for a concatenation with a literal piece that contains '?', the part before
// that '?'. Both off-site languages are decided by the text before the first '?': none of
// the characters their mandatory prefix is made of is '?', what follows the prefix is
// arbitrary, and the "/\\" of the cleaned form must lie before the first '?'. So membership
// of a ++ "?" ++ rest equals membership of a, and the solver is spared a regular-language
// argument about a concatenation with an uninterpreted query string.
func beforeQuery(t *Term) *Term {
	if t.Sym || t.Op != "str.++" {
		return t
	}
	for i, a := range t.Args {
		if lit, ok := a.StrVal(); ok {
			if j := strings.IndexByte(lit, '?'); j >= 0 {
				parts := append(append([]*Term(nil), t.Args[:i]...), StrLit(lit[:j]))
				return StrCat(parts...)
			}
		}
	}
	return t
}

const offsiteRegex = `(re.++ (re.* (re.range "\u{0}" "\u{20}")) ` +
	`(re.union ` +
	`(re.++ (re.union (re.range "a" "z") (re.range "A" "Z")) ` +
	`(re.* (re.union (re.range "a" "z") (re.range "A" "Z") (re.range "0" "9") (str.to_re "+") (str.to_re "-") (str.to_re ".") (str.to_re "\u{9}") (str.to_re "\u{a}") (str.to_re "\u{d}"))) ` +
	`(str.to_re ":") re.all) ` +
	`(re.++ (re.union (str.to_re "/") (str.to_re "\u{5c}")) (re.* (re.union (str.to_re "\u{9}") (str.to_re "\u{a}") (str.to_re "\u{d}"))) (re.union (str.to_re "/") (str.to_re "\u{5c}")) re.all)))`

// ---------------------------------------------------------------------------
// C17: secrets never reach storage or the log in recoverable form.
//
// Sources (terms): submitted passwords / tokens / codes / recovery codes
// (val!GetPassword, val!GetToken, val!GetCode, val!GetRecoveryCode), random
// bytes (rnd!N) and everything computed from them, generated codes returned by
// summarised generators, the remember cookie and the session-held secrets.
// Sanitisers: hash_of (bcrypt / configured hasher) and sha512.
// Sinks: every string field of a record passed to Save/Create/SaveOAuth2, the
// arguments of AddRememberToken, every Log message.

func isSecretSource(t *Term, forLog bool) bool {
	if !t.Sym {
		return false
	}
	op := strings.Trim(t.Op, "|")
	switch {
	case op == "val!GetPassword", op == "val!GetToken", op == "val!GetRecoveryCode":
		return true
	case op == "val!GetCode":
		// TOTP / SMS codes: never logged; TOTPLastCode is stored in the clear by
		// design (replay protection) and is not among the stored secrets of C17
		return forLog
	case strings.HasPrefix(op, "rnd!"):
		return true
	case strings.HasPrefix(op, "ret.generateRandomCode.0"), strings.HasPrefix(op, "ret.GenerateRecoveryCodes.0"), strings.HasPrefix(op, "ret.generateOTP.0"):
		return true // the plaintext result of a summarised generator
	case op == "cs_get" && len(t.Args) == 2:
		if k, ok := t.Args[1].StrVal(); ok {
			switch k {
			case "rm", "twofactor_auth_token":
				return true
			case "sms_secret", "totp_secret":
				// the TOTP secret must be stored recoverably (the server validates
				// codes with it): a log-only source
				return forLog
			}
		}
	case op == "totp_secret_of":
		return forLog
	case strings.HasPrefix(op, "body!"):
		// the raw request body (io.ReadAll): it carries the submitted password,
		// codes and tokens, whatever member they sit in
		return forLog
	case op == "f!url.URL.RawQuery", op == "f!http.Request.RequestURI":
		// the query string carries the mailed token on the GET routes
		return forLog
	case op == "url_string":
		// the request URL carries the mailed token on GET routes (confirm,
		// recover end, 2FA e-mail verification)
		return forLog
	}
	return false
}

func (ex *Executor) secretIn(t *Term, depth int, forLog bool) *Term {
	if isSecretSource(t, forLog) {
		return t
	}
	if t.Sym {
		op := strings.Trim(t.Op, "|")
		if op == "hash_of" || op == "sha512" || op == "hash_ok" || op == "str.len" {
			return nil
		}
		if def, ok := ex.Defs[t.Op]; ok && depth < 6 {
			if s := ex.secretIn(def, depth+1, forLog); s != nil {
				return s
			}
		}
	}
	if t.Op == "str.len" && !t.Sym {
		return nil
	}
	for _, a := range t.Args {
		if s := ex.secretIn(a, depth, forLog); s != nil {
			return s
		}
	}
	return nil
}

func secretsClean(env *CEnv) (bool, string) {
	ex := env.ex
	for _, e := range env.st.Trace {
		switch {
		case e.Kind == "Log":
			for _, a := range e.Args[1:] {
				if s := ex.secretIn(env.toTerm(a), 0, true); s != nil {
					return false, fmt.Sprintf("log line at %s contains %s", e.Pos, s)
				}
			}
		case e.Kind == "Store.Save" || e.Kind == "Store.Create" || e.Kind == "Store.SaveOAuth2":
			u, ok := e.Args[0].(*Term)
			if !ok {
				continue
			}
			for f, sort := range env.prog.UserFields {
				if sort != SStr {
					continue
				}
				arr := ex.userHeapGet(env.st, e.Heap, f, sort)
				if s := ex.secretIn(Select(arr, u), 0, false); s != nil {
					return false, fmt.Sprintf("record field %s stored at %s contains %s", f, e.Pos, s)
				}
			}
		case e.Kind == "Store.AddRememberToken":
			// (pid, stored token): the pid is an identifier, the stored token must be a hash
			for _, a := range e.Args[1:] {
				if s := ex.secretIn(env.toTerm(a), 0, false); s != nil {
					return false, fmt.Sprintf("remember token stored at %s contains %s", e.Pos, s)
				}
			}
		}
	}
	// an error returned by a function under a C17 contract ends, through the handler that
	// returns it, in the error handler's log line (errors are structured terms: err_new / err_wrap)
	if !env.panicky && env.ret != nil {
		rt := resultType(env.fn)
		chk := func(v Value, t types.Type) string {
			if t == nil || t.String() != "error" {
				return ""
			}
			if iv, ok := v.(*IfaceV); ok {
				v = iv.V
			}
			if tt, ok := v.(*Term); ok {
				if s := ex.secretIn(tt, 0, true); s != nil {
					return fmt.Sprintf("returned error (logged by the error handler) carries %s", s)
				}
			}
			return ""
		}
		if tup, ok := rt.(*types.Tuple); ok {
			if tv, ok := env.ret.(*TupleV); ok {
				for i := 0; i < tup.Len() && i < len(tv.V); i++ {
					if why := chk(tv.V[i], tup.At(i).Type()); why != "" {
						return false, why
					}
				}
			}
		} else if why := chk(env.ret, rt); why != "" {
			return false, why
		}
	}
	return true, ""
}

// guardedTerm evaluates the consequent of an implication. When it is not well
// defined on this path (a field of a value that has no such field here, ...)
// it stands for an unknown truth value: the implication then holds only if the
// antecedent is refutable on the path.
func (env *CEnv) guardedTerm(n *Node) (t *Term) {
	defer func() {
		if r := recover(); r != nil {
			if _, ok := r.(*evalError); ok {
				t = env.ex.Fresh("undefined", SBool)
				return
			}
			panic(r)
		}
	}()
	return env.term(n)
}
