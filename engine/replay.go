package main

// Replaying a solver counterexample against the real code (DESIGN 5.2, 5.8).

import (
	"context"
	"encoding/json"
	"fmt"
	"go/types"
	"os"
	"os/exec"
	"path/filepath"
	"sort"
	"strconv"
	"strings"
	"time"

	"golang.org/x/tools/go/ssa"
)

// ---- s-expression reader (for get-value answers) ---------------------------

type sexp struct {
	atom string
	list []*sexp
	isL  bool
}

func parseSexps(s string) []*sexp {
	var out []*sexp
	i := 0
	for {
		e, ni := readSexp(s, i)
		if e == nil {
			return out
		}
		out = append(out, e)
		i = ni
	}
}

func readSexp(s string, i int) (*sexp, int) {
	for i < len(s) && (s[i] == ' ' || s[i] == '\n' || s[i] == '\t' || s[i] == '\r') {
		i++
	}
	if i >= len(s) {
		return nil, i
	}
	switch s[i] {
	case '(':
		e := &sexp{isL: true}
		i++
		for {
			for i < len(s) && (s[i] == ' ' || s[i] == '\n' || s[i] == '\t' || s[i] == '\r') {
				i++
			}
			if i >= len(s) {
				return e, i
			}
			if s[i] == ')' {
				return e, i + 1
			}
			c, ni := readSexp(s, i)
			if c == nil {
				return e, ni
			}
			e.list = append(e.list, c)
			i = ni
		}
	case ')':
		return nil, i + 1
	case '"':
		j := i + 1
		for j < len(s) {
			if s[j] == '"' {
				if j+1 < len(s) && s[j+1] == '"' {
					j += 2
					continue
				}
				break
			}
			j++
		}
		return &sexp{atom: s[i : j+1]}, j + 1
	case '|':
		j := strings.IndexByte(s[i+1:], '|')
		if j < 0 {
			return &sexp{atom: s[i:]}, len(s)
		}
		return &sexp{atom: s[i : i+j+2]}, i + j + 2
	}
	j := i
	for j < len(s) && !strings.ContainsRune(" \n\t\r()", rune(s[j])) {
		j++
	}
	return &sexp{atom: s[i:j]}, j
}

func (e *sexp) String() string {
	if !e.isL {
		return e.atom
	}
	var parts []string
	for _, c := range e.list {
		parts = append(parts, c.String())
	}
	return "(" + strings.Join(parts, " ") + ")"
}

// modelValue converts a get-value answer into a Go value (int64, string, bool).
func modelValue(e *sexp) interface{} {
	if !e.isL {
		switch {
		case e.atom == "true":
			return true
		case e.atom == "false":
			return false
		case strings.HasPrefix(e.atom, "\""):
			s, _ := decodeSMTString(e.atom)
			return s
		}
		if n, err := strconv.ParseInt(e.atom, 10, 64); err == nil {
			return n
		}
		return nil
	}
	if len(e.list) == 2 && e.list[0].atom == "-" {
		if v, ok := modelValue(e.list[1]).(int64); ok {
			return -v
		}
	}
	// z3 prints some strings as (str.++ (seq.unit (_ Char n)) ...) / (_ char #x..)
	if len(e.list) > 0 && e.list[0].atom == "str.++" {
		var b strings.Builder
		for _, c := range e.list[1:] {
			s, ok := modelValue(c).(string)
			if !ok {
				return nil
			}
			b.WriteString(s)
		}
		return b.String()
	}
	if len(e.list) == 2 && e.list[0].atom == "seq.unit" {
		return modelValue(e.list[1])
	}
	if len(e.list) == 3 && e.list[0].atom == "_" && (e.list[1].atom == "Char" || e.list[1].atom == "char") {
		a := e.list[2].atom
		if strings.HasPrefix(a, "#x") {
			n, _ := strconv.ParseInt(a[2:], 16, 32)
			return string([]byte{byte(n)})
		}
		n, _ := strconv.ParseInt(a, 10, 32)
		return string([]byte{byte(n)})
	}
	return nil
}

// ---- collecting the terms whose model values the script needs ----------------

func scalarTermsOfValue(v Value, into map[string]*Term) {
	switch x := v.(type) {
	case *Term:
		if x.S == SInt || x.S == SStr || x.S == SBool {
			into[x.String()] = x
		}
	case *TimeV:
		into[x.T.String()] = x.T
	case *BytesV:
		into[x.T.String()] = x.T
	case *StructV:
		for _, f := range x.F {
			scalarTermsOfValue(f, into)
		}
	case *TupleV:
		for _, f := range x.V {
			scalarTermsOfValue(f, into)
		}
	case *IfaceV:
		scalarTermsOfValue(x.V, into)
	}
}

func interestingHead(op string) bool {
	op = strings.Trim(op, "|")
	switch {
	case op == "cs_get", op == "cs_has", op == "form_value", op == "validate", op == "hash_ok", op == "totp_ok", op == "time_parse", op == "time_parse_ok", op == "atoi", op == "json_unmarshal_map", op == "json_ok", strings.HasPrefix(op, "map!has!"), strings.HasPrefix(op, "map!get!"):
		return true
	case strings.HasPrefix(op, "b64dec!"), strings.HasPrefix(op, "b64ok!"):
		return true
	case strings.HasPrefix(op, "val!"), strings.HasPrefix(op, "f!"), strings.HasPrefix(op, "ctxval!"), strings.HasPrefix(op, "p."), strings.HasPrefix(op, "glob!"), strings.HasPrefix(op, "unbox!"), strings.HasPrefix(op, "is!"):
		return true
	}
	return false
}

func collectInteresting(t *Term, into map[string]*Term) {
	if t.Sym && interestingHead(t.Op) && (t.S == SInt || t.S == SStr || t.S == SBool) {
		into[t.String()] = t
	}
	if t.Op == "select" && !t.Sym && len(t.Args) == 2 && t.Args[0].Sym && strings.HasPrefix(t.Args[0].Op, "uh0!") {
		into[t.String()] = t
	}
	if strings.HasPrefix(t.Op, "forall") || strings.HasPrefix(t.Op, "exists") {
		return
	}
	for _, a := range t.Args {
		collectInteresting(a, into)
	}
}

type modelVals map[string]interface{}

func (m modelVals) of(t *Term) interface{} {
	if t == nil {
		return nil
	}
	if t.Lit {
		if n, ok := t.IntVal(); ok {
			return n
		}
		if s, ok := t.StrVal(); ok {
			return s
		}
		if t == TTrue {
			return true
		}
		if t == TFalse {
			return false
		}
	}
	return m[t.String()]
}

func (m modelVals) int(t *Term) int64 {
	v, _ := m.of(t).(int64)
	return v
}
func (m modelVals) str(t *Term) string {
	v, _ := m.of(t).(string)
	return v
}
func (m modelVals) boolean(t *Term) bool {
	v, _ := m.of(t).(bool)
	return v
}

// queryModel re-runs the refuted query and asks for the values of ts.
func queryModel(o *Obligation, ts []*Term, extra string) (modelVals, error) {
	var b strings.Builder
	oq := *o
	oq.ExtraDecl = ts
	base := oq.smt(false)
	if i := strings.LastIndex(base, "(check-sat)"); i >= 0 && extra != "" {
		base = base[:i] + extra + base[i:]
	}
	b.WriteString(base)
	// one get-value per term: a term the solver cannot evaluate costs only itself
	for _, t := range ts {
		b.WriteString("(get-value (")
		b.WriteString(t.String())
		b.WriteString("))\n")
	}
	dir, _ := os.MkdirTemp("", "gvc-model-")
	defer os.RemoveAll(dir)
	file := filepath.Join(dir, "m.smt2")
	os.WriteFile(file, []byte(b.String()), 0o644)
	if keep := os.Getenv("GVC_KEEP_MODEL"); keep != "" {
		os.MkdirAll(keep, 0o755)
		suffix := ""
		if extra != "" {
			suffix = "-time"
		}
		os.WriteFile(filepath.Join(keep, sanitize(o.Name)+suffix+".smt2"), []byte(b.String()), 0o644)
	}
	argvs := [][]string{{"z3-new", "-T:20", file}, {"cvc5", "--produce-models", "--strings-exp", "--tlimit=20000", file}}
	if strings.HasPrefix(o.Solver, "cvc5") {
		argvs[0], argvs[1] = argvs[1], argvs[0]
	}
	for _, argv := range argvs {
		ctx, cancel := context.WithTimeout(context.Background(), 25*time.Second)
		out, _ := exec.CommandContext(ctx, argv[0], argv[1:]...).CombinedOutput()
		cancel()
		txt := string(out)
		if !strings.HasPrefix(strings.TrimSpace(txt), "sat") {
			continue
		}
		rest := txt[strings.Index(txt, "sat")+3:]
		es := parseSexps(rest)
		if len(es) == 0 {
			continue
		}
		mv := modelVals{}
		for i, e := range es {
			if i >= len(ts) {
				break
			}
			if len(e.list) != 1 || len(e.list[0].list) != 2 {
				continue // (error ...) for this term
			}
			mv[ts[i].String()] = modelValue(e.list[0].list[1])
		}
		return mv, nil
	}
	return nil, fmt.Errorf("no model values obtained")
}

// ---- script construction ----------------------------------------------------------

type replayPlan struct {
	Script      map[string]interface{}
	ConfigCode  string
	CallCode    string
	Pkg         string
	PkgDir      string
	External    bool
	InRoot      bool
	Unsupported string
}

func goLit(v interface{}) string {
	switch x := v.(type) {
	case string:
		return strconv.Quote(x)
	case int64:
		return strconv.FormatInt(x, 10)
	case bool:
		return strconv.FormatBool(x)
	}
	return "nil"
}

func (p *Program) buildReplay(o *Obligation) (*replayPlan, modelVals) {
	st := o.PathSt
	fn := o.Fn
	if st == nil || fn == nil {
		return &replayPlan{Unsupported: "no path state recorded for this obligation kind"}, nil
	}
	terms := map[string]*Term{}
	for _, h := range o.Hyps {
		collectInteresting(h, terms)
	}
	collectInteresting(o.Goal, terms)
	for _, e := range st.Trace {
		for _, a := range e.Args {
			scalarTermsOfValue(a, terms)
		}
		for _, a := range e.Res {
			scalarTermsOfValue(a, terms)
		}
	}
	// nested interesting subterms of event terms
	for _, t := range copyTerms(terms) {
		collectInteresting(t, terms)
	}
	// user refs: ctx user and Load results; their fields in the entry heap
	var userRefs []*Term
	for _, t := range copyTerms(terms) {
		if t.Sym && strings.HasPrefix(strings.Trim(t.Op, "|"), "ctxval!user") {
			userRefs = append(userRefs, t)
		}
	}
	for _, e := range st.Trace {
		if strings.HasPrefix(e.Kind, "Store.Load") || e.Kind == "Store.NewFromOAuth2" {
			if len(e.Res) > 0 {
				if u, ok := e.Res[0].(*Term); ok {
					userRefs = append(userRefs, u)
				}
			}
		}
	}
	for _, prm := range fn.Params {
		if isUserIface(prm.Type()) || isNamed(prm.Type(), abPkg, "User") {
			c := Const("p."+prm.Name(), SInt)
			userRefs = append(userRefs, c)
			terms[c.String()] = c
		}
	}
	for _, prm := range fn.Params {
		if sl, ok := prm.Type().Underlying().(*types.Slice); ok {
			if it, ok := sl.Elem().Underlying().(*types.Interface); ok && it.NumMethods() == 0 {
				c := App("slen", SInt, Const("p."+prm.Name(), SInt))
				terms[c.String()] = c
			}
		}
	}
	for _, u := range userRefs {
		for f, sort := range p.UserFields {
			sel := &Term{Op: "select", Args: []*Term{Const("uh0!"+f, SArr(SInt, sort)), u}, S: sort}
			terms[sel.String()] = sel
		}
	}
	var ts []*Term
	var keys []string
	for k := range terms {
		keys = append(keys, k)
	}
	sort.Strings(keys)
	for _, k := range keys {
		if strings.Contains(k, "q!") || strings.Contains(k, " qi") {
			continue // mentions a bound variable
		}
		ts = append(ts, terms[k])
	}
	// crypto terms of the path (their model values drive the forward computation)
	crypto := map[string]*Term{}
	for _, h := range o.Hyps {
		collectCrypto(h, crypto)
	}
	collectCrypto(o.Goal, crypto)
	for _, t := range copyTerms(terms) {
		collectCrypto(t, crypto)
	}
	for k, t := range crypto {
		if _, has := terms[k]; !has {
			ts = append(ts, t)
		}
		if len(t.Args) == 1 {
			if list, sep, idx, ok := splitElem(stripIte(t.Args[0])); ok {
				ts = append(ts, App("str_split_len", SInt, list, sep))
				if !idx.Lit {
					ts = append(ts, idx)
				}
			}
		}
	}
	// clock readings in order
	var nows []*Term
	for _, e := range st.Trace {
		if e.Kind == "Now" && len(e.Res) == 1 {
			if n, ok := e.Res[0].(*Term); ok {
				nows = append(nows, n)
			}
		}
	}
	timeRealised := false
	var mv modelVals
	var err error
	// small models are easier to realise: separated lists of at most four elements
	sizeAsserts := ""
	for _, t := range ts {
		if t.Sym && strings.Trim(t.Op, "|") == "str_split_len" {
			sizeAsserts += fmt.Sprintf("(assert (<= %s 4))\n", t)
		}
	}
	ta := timeAsserts(o, nows)
	for _, extra := range []string{ta + sizeAsserts, ta, sizeAsserts} {
		if extra == "" {
			continue
		}
		if mv, err = queryModel(o, ts, extra); err == nil {
			timeRealised = ta != "" && strings.HasPrefix(extra, ta)
			break
		}
	}
	if mv == nil {
		mv, err = queryModel(o, ts, "")
	}
	if err != nil {
		return &replayPlan{Unsupported: err.Error()}, nil
	}
	concLog := reconcileCrypto(o, mv, ts, crypto)
	// TOTP computed forward: where the refuted path needs totp.Validate(code,
	// secret) to hold, the secret input gets a well-formed key and the code input
	// is computed by the harness at run time (it depends on the clock)
	const totpKey = "JBSWY3DPEHPK3PXPJBSWY3DPEHPK3PXP"
	var totpCodes []map[string]interface{}
	for _, t := range ts {
		if !t.Sym || strings.Trim(t.Op, "|") != "totp_ok" || len(t.Args) != 2 || !mv.boolean(t) {
			continue
		}
		code, secret := stripIte(t.Args[0]), stripIte(t.Args[1])
		if !isInputLeaf(code) || !isInputLeaf(secret) {
			continue
		}
		mv[secret.String()] = totpKey
		marker := "%%%totp-code-" + strconv.Itoa(len(totpCodes)) + "%%%"
		mv[code.String()] = marker
		totpCodes = append(totpCodes, map[string]interface{}{"marker": marker, "secret": totpKey})
		concLog = append(concLog, fmt.Sprintf("%s := a well-formed TOTP key; %s := the code valid for it when the harness runs", secret, code))
	}
	plan := &replayPlan{Script: map[string]interface{}{}}
	if fn.Pkg == nil && fn.Parent() != nil {
		plan.Pkg = fn.Parent().Package().Pkg.Name()
	}
	pk := fn.Package()
	plan.Pkg = pk.Pkg.Name()
	plan.PkgDir = p.relPkg(pk.Pkg.Path())
	if pk.Pkg.Path() == p.Module {
		plan.InRoot = true // in-package test of the root package: no import, no qualifier
	}

	// sentinel errors by model value
	sentinels := map[int64]string{}
	for _, t := range ts {
		op := strings.Trim(t.Op, "|")
		if t.Sym && strings.HasPrefix(op, "glob!") && t.S == SInt {
			name := op[strings.LastIndexByte(op, '.')+1:]
			sentinels[mv.int(t)] = name
		}
	}
	errName := func(v Value) string {
		t, ok := v.(*Term)
		if !ok {
			return "nil"
		}
		n := mv.int(t)
		if n == 0 {
			return "nil"
		}
		if s, ok := sentinels[n]; ok {
			return s
		}
		return "other"
	}
	refID := func(v Value) string {
		t, ok := v.(*Term)
		if !ok {
			return "0"
		}
		return strconv.FormatInt(mv.int(t), 10)
	}

	// session/cookie values that the code parses as times: relative instants
	stimes := map[string]interface{}{}
	for _, t := range ts {
		if !t.Sym || strings.Trim(t.Op, "|") != "time_parse" || len(t.Args) != 2 {
			continue
		}
		in := stripIte(t.Args[1])
		if !in.Sym || strings.Trim(in.Op, "|") != "cs_get" || len(in.Args) != 2 {
			continue
		}
		k, ok := in.Args[1].StrVal()
		if !ok {
			continue
		}
		okT := App("time_parse_ok", SBool, t.Args[0], t.Args[1])
		if b, has := mv[okT.String()].(bool); has && !b {
			continue
		}
		lay, _ := t.Args[0].StrVal()
		store := "session"
		if strings.Contains(in.Args[0].String(), "ctxval!cookie") {
			store = "cookie"
		}
		stimes[store+":"+k] = map[string]interface{}{"rel": mv.int(t), "layout": lay}
	}
	// decimal strings the code parses (atoi(X), X an input): the input is the decimal
	// form of the model's number; when the number is compared with a clock reading it
	// is a Unix time and travels relative to "now"
	timeLike := map[string]bool{}
	var scan func(t *Term, f func(*Term))
	scan = func(t *Term, f func(*Term)) {
		f(t)
		for _, a := range t.Args {
			scan(a, f)
		}
	}
	for _, h := range o.Hyps {
		if !mentionsNow(h) {
			continue
		}
		var walkAtoms func(t *Term)
		walkAtoms = func(t *Term) {
			if !t.Sym && (t.Op == "and" || t.Op == "not") {
				for _, a := range t.Args {
					walkAtoms(a)
				}
				return
			}
			if mentionsNow(t) {
				scan(t, func(x *Term) {
					if x.Sym && strings.Trim(x.Op, "|") == "atoi" && len(x.Args) == 1 {
						timeLike[x.String()] = true
					}
				})
			}
		}
		walkAtoms(h)
	}
	for _, t := range ts {
		if !t.Sym || strings.Trim(t.Op, "|") != "atoi" || len(t.Args) != 1 {
			continue
		}
		in := stripIte(t.Args[0])
		n, has := mv.of(t).(int64)
		if !has || !isInputLeaf(in) {
			continue
		}
		if in.Sym && strings.Trim(in.Op, "|") == "cs_get" && len(in.Args) == 2 && timeLike[t.String()] && timeRealised {
			if k, ok := in.Args[1].StrVal(); ok {
				store := "session"
				if strings.Contains(in.Args[0].String(), "ctxval!cookie") {
					store = "cookie"
				}
				stimes[store+":"+k] = map[string]interface{}{"rel": n * 1000000000, "layout": "unix"}
				continue
			}
		}
		mv[in.String()] = strconv.FormatInt(n, 10)
	}
	plan.Script["state_times"] = stimes
	// inputs the code decodes as a JSON object: an object holding the entries the
	// path looked up (by literal key) and found
	for _, t := range ts {
		if t.Sym && strings.Trim(t.Op, "|") == "json_ok" && len(t.Args) == 1 {
			if in := stripIte(t.Args[0]); isInputLeaf(in) {
				if mv.boolean(t) {
					if !json.Valid([]byte(mv.str(in))) {
						mv[in.String()] = "{}"
					}
				} else {
					mv[in.String()] = "{not json"
				}
			}
		}
	}
	for _, t := range ts {
		if !t.Sym || strings.Trim(t.Op, "|") != "json_unmarshal_map" || len(t.Args) != 1 {
			continue
		}
		in := stripIte(t.Args[0])
		if !isInputLeaf(in) {
			continue
		}
		if ok := App("json_ok", SBool, t.Args[0]); !mv.boolean(ok) {
			continue
		}
		obj := map[string]string{}
		for _, h := range ts {
			if !h.Sym || !strings.HasPrefix(strings.Trim(h.Op, "|"), "map!has!") || len(h.Args) != 2 || h.Args[0].String() != t.String() || !mv.boolean(h) {
				continue
			}
			k, ok := h.Args[1].StrVal()
			if !ok {
				continue
			}
			g := App("map!get!String!String", SStr, h.Args[0], h.Args[1])
			obj[k] = latin1(mv.str(g))
		}
		js, _ := json.Marshal(obj)
		mv[in.String()] = string(js)
	}
	// request, session, cookie, context
	req := map[string]interface{}{"method": "POST", "form": map[string]string{}}
	form := req["form"].(map[string]string)
	session := map[string]string{}
	cookie := map[string]string{}
	hasSession, hasCookie := false, false
	var ctxUser string
	var ctxPID *string
	for _, t := range ts {
		op := strings.Trim(t.Op, "|")
		if !t.Sym {
			continue
		}
		switch {
		case op == "form_value" && len(t.Args) == 2:
			if k, ok := t.Args[1].StrVal(); ok {
				form[k] = mv.str(t)
			}
		case op == "f!url.URL.Path":
			req["path"] = mv.str(t)
		case op == "f!url.URL.RawQuery":
			req["rawquery"] = mv.str(t)
		case op == "f!http.Request.Method":
			if m := mv.str(t); m != "" {
				req["method"] = m
			}
		case op == "ctxval!session":
			hasSession = mv.int(t) != 0
		case op == "ctxval!cookie":
			hasCookie = mv.int(t) != 0
		case op == "ctxval!user":
			if mv.int(t) != 0 {
				ctxUser = strconv.FormatInt(mv.int(t), 10)
			}
		case op == "unbox!String!string" && len(t.Args) == 1 && strings.Contains(t.Args[0].String(), "ctxval!pid"):
			if mv.int(t.Args[0]) != 0 {
				s := mv.str(t)
				ctxPID = &s
			}
		case op == "cs_has" && len(t.Args) == 2:
			k, ok := t.Args[1].StrVal()
			if !ok || !mv.boolean(t) || strings.HasPrefix(k, "ghost!") {
				continue
			}
			val := ""
			get := App("cs_get", SStr, t.Args[0], t.Args[1])
			if v, ok := mv[get.String()]; ok {
				val, _ = v.(string)
			}
			if strings.Contains(t.Args[0].String(), "ctxval!cookie") {
				cookie[k] = val
			} else {
				session[k] = val
			}
		}
	}
	if p, ok := req["path"].(string); !ok || !strings.HasPrefix(p, "/") {
		req["path"] = "/"
	}
	plan.Script["request"] = req
	plan.Script["session"] = session
	plan.Script["has_session"] = hasSession
	plan.Script["cookie"] = cookie
	plan.Script["has_cookie"] = hasCookie
	plan.Script["ctx_user"] = ctxUser
	if ctxPID != nil {
		plan.Script["ctx_pid"] = *ctxPID
	}
	// users
	users := map[string]map[string]interface{}{}
	for _, u := range userRefs {
		id := strconv.FormatInt(mv.int(u), 10)
		if id == "0" {
			continue
		}
		rec := map[string]interface{}{}
		for f, sort := range p.UserFields {
			sel := &Term{Op: "select", Args: []*Term{Const("uh0!"+f, SArr(SInt, sort)), u}, S: sort}
			if v, ok := mv[sel.String()]; ok && v != nil {
				rec[f] = v
			}
		}
		users[id] = rec
	}
	plan.Script["users"] = users
	plan.Script["time_relative"] = timeRealised
	plan.Script["realised"] = concLog
	plan.Script["totp_codes"] = totpCodes
	// calls in order
	valuesOf := func(ref *Term) map[string]interface{} {
		m := map[string]interface{}{}
		for _, t := range ts {
			op := strings.Trim(t.Op, "|")
			if t.Sym && strings.HasPrefix(op, "val!Get") && len(t.Args) == 1 && assertedRef(t.Args[0]).String() == ref.String() {
				m[strings.TrimPrefix(op, "val!Get")] = mv.of(t)
			}
			if t.Sym && op == "validate" && len(t.Args) == 1 && assertedRef(t.Args[0]).String() == ref.String() && mv.int(t) != 0 {
				m["validate_errors"] = 1
			}
		}
		return m
	}
	var calls []map[string]interface{}
	for _, e := range st.Trace {
		switch {
		case strings.HasPrefix(e.Kind, "Store."):
			res := map[string]interface{}{}
			switch len(e.Res) {
			case 1:
				if e.Kind == "Store.New" {
					continue
				}
				res["err"] = errName(e.Res[0])
			case 2:
				res["user"] = refID(e.Res[0])
				res["err"] = errName(e.Res[1])
			}
			calls = append(calls, map[string]interface{}{"kind": e.Kind, "res": res})
		case e.Kind == "Hash.Compare":
			calls = append(calls, map[string]interface{}{"kind": e.Kind, "res": map[string]interface{}{"err": errName(e.Res[0])}})
		case e.Kind == "Hash.Generate":
			calls = append(calls, map[string]interface{}{"kind": e.Kind, "res": map[string]interface{}{"err": errName(e.Res[1])}})
		case e.Kind == "Body.Read":
			res := map[string]interface{}{"err": errName(e.Res[1])}
			if ref, ok := e.Res[0].(*Term); ok {
				res["values"] = valuesOf(ref)
			}
			calls = append(calls, map[string]interface{}{"kind": e.Kind, "res": res})
		case e.Kind == "Fire":
			h, _ := e.Res[0].(*Term)
			calls = append(calls, map[string]interface{}{"kind": e.Kind, "res": map[string]interface{}{"handled": mv.boolean(h), "err": errName(e.Res[1])}})
		case e.Kind == "CallFuncValue" && len(e.Res) > 0:
			calls = append(calls, map[string]interface{}{"kind": e.Kind, "res": map[string]interface{}{"err": errName(e.Res[len(e.Res)-1])}})
		case e.Kind == "Localize":
			txt, _ := e.Res[0].(*Term)
			calls = append(calls, map[string]interface{}{"kind": e.Kind, "res": map[string]interface{}{"text": latin1(mv.str(txt))}})
		case e.Kind == "Respond" || e.Kind == "Redirect" || e.Kind == "SMS.Send" || e.Kind == "Mail.Send":
			calls = append(calls, map[string]interface{}{"kind": e.Kind, "res": map[string]interface{}{"err": errName(e.Res[0])}})
		}
	}
	plan.Script["calls"] = calls
	// ctx values (remember etc.)
	for _, t := range ts {
		if t.Sym && strings.Trim(t.Op, "|") == "ctxval!values" && mv.int(t) != 0 {
			plan.Script["ctx_values"] = valuesOf(t)
		}
	}
	// configuration assignments
	var cfg []string
	seenCfg := map[string]bool{}
	abT := p.ByPkg[p.Module].Pkg.Scope().Lookup("Config").Type()
	for _, t := range ts {
		op := strings.Trim(t.Op, "|")
		const pre = "f!authboss.Authboss.Config."
		if !t.Sym || !strings.HasPrefix(op, pre) {
			continue
		}
		path := op[len(pre):]
		ft := fieldTypeByPath(abT, strings.Split(path, "."))
		if ft == nil || seenCfg[path] {
			continue
		}
		if path == "Core.Localizer" {
			seenCfg[path] = true
			if mv.int(t) != 0 {
				cfg = append(cfg, "\tab.Config.Core.Localizer = vrLocalizer{st}")
			}
			continue
		}
		if b, ok := ft.Underlying().(*types.Basic); ok && (b.Info()&(types.IsString|types.IsInteger|types.IsBoolean) != 0) {
			seenCfg[path] = true
			if path == "Modules.MailNoGoroutine" {
				continue
			}
			q := "authboss."
			if pk.Pkg.Path() == p.Module {
				q = ""
			}
			cfg = append(cfg, fmt.Sprintf("\tab.Config.%s = %s(%s)", path, strings.ReplaceAll(types.TypeString(ft, func(pk *types.Package) string {
				if pk.Path() == p.Module {
					return strings.TrimSuffix(q, ".")
				}
				return pk.Name()
			}), "authboss.authboss", "authboss"), goLit(orZeroT(mv.of(t), ft))))
		}
	}
	sort.Strings(cfg)
	plan.ConfigCode = strings.Join(cfg, "\n")
	plan.CallCode, plan.Unsupported = p.replayCall(fn, mv, plan.InRoot)
	return plan, mv
}

func copyTerms(m map[string]*Term) []*Term {
	out := make([]*Term, 0, len(m))
	for _, t := range m {
		out = append(out, t)
	}
	return out
}

func fieldTypeByPath(t types.Type, path []string) types.Type {
	for _, name := range path {
		st, ok := t.Underlying().(*types.Struct)
		if !ok {
			return nil
		}
		found := false
		for i := 0; i < st.NumFields(); i++ {
			if st.Field(i).Name() == name {
				t = st.Field(i).Type()
				found = true
				break
			}
		}
		if !found {
			return nil
		}
	}
	return t
}

// replayCall emits the Go code that builds the receiver and calls the function.
func (p *Program) replayCall(fn *ssa.Function, mv modelVals, inRoot bool) (code string, unsupported string) {
	key := p.funcKey(fn)
	name := key[strings.IndexByte(key, ':')+1:]
	testPkg := fn.Package().Pkg
	qual := func(pk *types.Package) string {
		if pk == testPkg {
			return ""
		}
		if pk.Path() == p.Module {
			return "authboss"
		}
		return pk.Name()
	}
	tstr := func(t types.Type) string { return types.TypeString(t, qual) }
	basicLit := func(t types.Type, v interface{}) (string, bool) {
		b, ok := t.Underlying().(*types.Basic)
		if !ok || b.Info()&(types.IsString|types.IsInteger|types.IsBoolean) == 0 {
			return "", false
		}
		return fmt.Sprintf("%s(%s)", tstr(t), goLit(orZero(v, b))), true
	}
	var paramVal func(pname string, t types.Type) (string, bool)
	paramVal = func(pname string, t types.Type) (string, bool) {
		switch {
		case isNamed(t, "net/http", "ResponseWriter"):
			return "w", true
		case isNamed(t, "net/http", "Handler"):
			return "vrNext{st}", true
		case isNamed(t, "net/http", "Request"):
			if _, ok := t.(*types.Pointer); ok {
				return "r", true
			}
		case isNamed(t, "context", "Context"):
			return "r.Context()", true
		case isNamed(t, abPkg, "Authboss"):
			return "ab", true
		}
		if pp, ok := t.(*types.Pointer); ok {
			if p2, ok := pp.Elem().(*types.Pointer); ok && isNamed(p2, "net/http", "Request") {
				return "&r", true
			}
		}
		if isUserIface(t) || isNamed(t, abPkg, "User") {
			id, _ := mv["p."+pname].(int64)
			return fmt.Sprintf("func() %s { if u := st.user(%q); u != nil { return u }; return nil }()", tstr(t), strconv.FormatInt(id, 10)), true
		}
		if s, ok := basicLit(t, mv["p."+pname]); ok {
			return s, true
		}
		if sl, ok := t.Underlying().(*types.Slice); ok {
			if it, ok := sl.Elem().Underlying().(*types.Interface); ok && it.NumMethods() == 0 {
				// variadic ...any: only the empty list can be rebuilt from the model
				// variadic ...any: the model fixes the length only; the operands are nil values
				n, _ := mv[App("slen", SInt, Const("p."+pname, SInt)).String()].(int64)
				if n <= 0 {
					return "[]interface{}(nil)", true
				}
				if n <= 16 {
					return fmt.Sprintf("make([]interface{}, %d)", n), true
				}
			}
		}
		if isByteSlice(t) {
			s, _ := mv["p."+pname].(string)
			return fmt.Sprintf("[]byte(vrBytes(%s))", strconv.Quote(latin1(s))), true
		}
		if n, ok := t.(*types.Named); ok && valueLike(n) {
			if stt, ok := n.Underlying().(*types.Struct); ok {
				var fs []string
				for i := 0; i < stt.NumFields(); i++ {
					f := stt.Field(i)
					if s, ok := basicLit(f.Type(), mv["p."+pname+"."+f.Name()]); ok {
						fs = append(fs, f.Name()+": "+s)
					}
				}
				return tstr(t) + "{" + strings.Join(fs, ", ") + "}", true
			}
		}
		return "", false
	}
	recvLit := func(t types.Type, base string) (string, bool) {
		ptr := ""
		if pp, ok := t.(*types.Pointer); ok {
			ptr = "&"
			t = pp.Elem()
		}
		if isNamed(t, abPkg, "Authboss") && ptr == "&" {
			return "ab", true
		}
		n, ok := t.(*types.Named)
		if !ok {
			return "", false
		}
		stt, ok := n.Underlying().(*types.Struct)
		if !ok {
			return "", false
		}
		var build func(n *types.Named, stt *types.Struct, ptr string, path string) (string, bool)
		build = func(n *types.Named, stt *types.Struct, ptr string, path string) (string, bool) {
			var fs []string
			for i := 0; i < stt.NumFields(); i++ {
				f := stt.Field(i)
				ft := f.Type()
				switch {
				case isNamed(ft, abPkg, "Authboss"):
					fs = append(fs, f.Name()+": ab")
				case isNamed(ft, "net/http", "Handler"):
					fs = append(fs, f.Name()+": vrNext{st}")
				case f.Name() == "Sender":
					fs = append(fs, "Sender: vrSender{st}")
				case isNamed(ft, abPkg, "Renderer"):
					fs = append(fs, f.Name()+": vrRenderer{st}")
				default:
					if pp, ok := ft.(*types.Pointer); ok {
						if n2, ok := pp.Elem().(*types.Named); ok {
							if s2, ok := n2.Underlying().(*types.Struct); ok && n2.Obj().Pkg() == n.Obj().Pkg() {
								inner, ok := build(n2, s2, "&", path+"."+f.Name())
								if !ok {
									return "", false
								}
								fs = append(fs, f.Name()+": "+inner)
								continue
							}
						}
					}
					if b, ok := ft.Underlying().(*types.Basic); ok && b.Info()&(types.IsString|types.IsInteger|types.IsBoolean) != 0 {
						// value from the model: f!<pkg>.<Type>.<Field>(p.<recv>) or p.<recv>.<Field>
						var val interface{}
						for k, v := range mv {
							if strings.Contains(k, "."+n.Obj().Name()+"."+f.Name()+" ") || strings.HasSuffix(k, path+"."+f.Name()) {
								val = v
							}
						}
						s, _ := basicLit(ft, val)
						fs = append(fs, f.Name()+": "+s)
					}
				}
			}
			return ptr + n.Obj().Name() + "{" + strings.Join(fs, ", ") + "}", true
		}
		return build(n, stt, ptr, base)
	}
	wrap := func(call string, sig *types.Signature) string {
		if sig.Results().Len() == 0 {
			return call
		}
		return "result = vrResults(" + call + ")"
	}
	argsOf := func(f *ssa.Function, skipRecv bool) ([]string, string) {
		var args []string
		ps := f.Params
		if skipRecv {
			ps = ps[1:]
		}
		for _, prm := range ps {
			a, ok := paramVal(prm.Name(), prm.Type())
			if !ok {
				return nil, "parameter " + prm.Name() + " of " + f.Name() + " cannot be constructed"
			}
			args = append(args, a)
		}
		if f.Signature.Variadic() && len(args) > 0 {
			args[len(args)-1] += "..."
		}
		return args, ""
	}
	call := ""
	switch {
	case fn.Parent() == nil && fn.Signature.Recv() != nil:
		lit, ok := recvLit(fn.Signature.Recv().Type(), "p."+fn.Params[0].Name())
		if !ok {
			return "", "receiver of " + name + " cannot be constructed"
		}
		args, why := argsOf(fn, true)
		if why != "" {
			return "", why
		}
		call = "recv := " + lit + "\n\t\t" + wrap(fmt.Sprintf("recv.%s(%s)", fn.Name(), strings.Join(args, ", ")), fn.Signature)
	case fn.Parent() == nil:
		args, why := argsOf(fn, false)
		if why != "" {
			return "", why
		}
		call = wrap(fmt.Sprintf("%s(%s)", fn.Name(), strings.Join(args, ", ")), fn.Signature)
	default:
		// a handler closure: call the function that builds it, with the values the
		// model gives to the variables it captured, and serve the request through it
		root, depth := fn, 0
		for root.Parent() != nil {
			root = root.Parent()
			depth++
		}
		if !isHandlerFuncSig(fn.Signature) || depth > 2 {
			return "", "closure " + name + " has no replay adapter"
		}
		prefix := ""
		skip := false
		if root.Signature.Recv() != nil {
			lit, ok := recvLit(root.Signature.Recv().Type(), "p."+root.Params[0].Name())
			if !ok {
				return "", "receiver of " + root.Name() + " cannot be constructed"
			}
			prefix = "recv := " + lit + "\n\t\t"
			skip = true
		}
		args, why := argsOf(root, skip)
		if why != "" {
			return "", why
		}
		h := fmt.Sprintf("%s(%s)", root.Name(), strings.Join(args, ", "))
		if skip {
			h = "recv." + h
		}
		if depth == 2 {
			h += "(vrNext{st})"
		}
		call = prefix + h + ".ServeHTTP(w, r)"
	}
	return "\t\t" + call, ""
}

// isHandlerFuncSig: func(http.ResponseWriter, *http.Request).
func isHandlerFuncSig(sig *types.Signature) bool {
	return sig.Params().Len() == 2 && sig.Results().Len() == 0 && isNamed(sig.Params().At(0).Type(), "net/http", "ResponseWriter") && isNamed(sig.Params().At(1).Type(), "net/http", "Request")
}

func orZeroT(v interface{}, t types.Type) interface{} {
	if b, ok := t.Underlying().(*types.Basic); ok {
		return orZero(v, b)
	}
	return v
}

func orZero(v interface{}, b *types.Basic) interface{} {
	if v != nil {
		return v
	}
	switch {
	case b.Info()&types.IsString != 0:
		return ""
	case b.Info()&types.IsBoolean != 0:
		return false
	}
	return int64(0)
}

// ---- harness generation and execution --------------------------------------------

func (p *Program) harnessSource(plan *replayPlan) string {
	src := replayHarness
	abq := "authboss."
	abimp := `authboss "` + p.Module + `"`
	if plan.InRoot {
		abq, abimp = "", ""
	}
	src = strings.ReplaceAll(src, "%PKG%", plan.Pkg)
	src = strings.ReplaceAll(src, "%ABIMPORT%", abimp)
	src = strings.ReplaceAll(src, "%ABQ%", abq)
	src = strings.ReplaceAll(src, "%USERMETHODS%", p.userMethodsSource())
	src = strings.ReplaceAll(src, "%VALUEMETHODS%", p.valueMethodsSource())
	src = strings.ReplaceAll(src, "%CONFIG%", plan.ConfigCode)
	extraImports, extraSetup := "", ""
	if plan.PkgDir == "oauth2" {
		// the provider table and the token exchange are part of the environment
		extraImports = "\t\"path/filepath\"\n\tgoauth2 \"golang.org/x/oauth2\"\n"
		extraSetup = oauth2Setup
	}
	src = strings.ReplaceAll(src, "%EXTRAIMPORTS%", extraImports)
	src = strings.ReplaceAll(src, "%EXTRASETUP%", extraSetup)
	src = strings.ReplaceAll(src, "%CALL%", plan.CallCode)
	js, _ := json.Marshal(latin1Deep(plan.Script))
	src = strings.ReplaceAll(src, "%SCRIPT%", "`"+strings.ReplaceAll(string(js), "`", "'")+"`")
	src += `
func vrResults(rs ...interface{}) []interface{} {
	var out []interface{}
	for _, r := range rs {
		switch x := r.(type) {
		case nil:
			out = append(out, "nil")
		case error:
			out = append(out, vrErrName(x))
		default:
			if _, err := json.Marshal(x); err != nil {
				out = append(out, fmt.Sprintf("%T", x))
			} else {
				out = append(out, x)
			}
		}
	}
	return out
}
`
	return src
}

func goTypeString(t types.Type) string {
	return types.TypeString(t, func(pk *types.Package) string { return pk.Name() })
}

// userMethodsSource generates Get/Put methods on vrUser for every user-record
// interface of the repository.
func (p *Program) userMethodsSource() string {
	type m struct {
		name string
		t    types.Type
	}
	fields := map[string]types.Type{}
	others := map[string]*types.Signature{}
	for _, pk := range p.Pkgs {
		sc := pk.Types.Scope()
		for _, name := range sc.Names() {
			tn, ok := sc.Lookup(name).(*types.TypeName)
			if !ok || !isUserIface(tn.Type()) {
				continue
			}
			ms := types.NewMethodSet(tn.Type())
			for i := 0; i < ms.Len(); i++ {
				f := ms.At(i).Obj().(*types.Func)
				sig := f.Type().(*types.Signature)
				switch {
				case strings.HasPrefix(f.Name(), "Get") && sig.Params().Len() == 0 && sig.Results().Len() == 1:
					fields[f.Name()[3:]] = sig.Results().At(0).Type()
				case strings.HasPrefix(f.Name(), "Put") && sig.Params().Len() == 1 && sig.Results().Len() == 0:
				default:
					others[f.Name()] = sig
				}
			}
		}
	}
	var names []string
	for n := range fields {
		names = append(names, n)
	}
	sort.Strings(names)
	var b strings.Builder
	for _, n := range names {
		t := fields[n]
		ts := goTypeString(t)
		var get string
		switch {
		case isTime(t):
			get = fmt.Sprintf("u.tm(%q)", n)
		case ts == "string":
			get = fmt.Sprintf("u.str(%q)", n)
		case ts == "bool":
			get = fmt.Sprintf("u.boolean(%q)", n)
		case ts == "int":
			get = fmt.Sprintf("u.integer(%q)", n)
		default:
			get = fmt.Sprintf("func() %s { v, _ := u.F[%q].(%s); return v }()", ts, n, ts)
		}
		fmt.Fprintf(&b, "func (u *vrUser) Get%s() %s { return %s }\n", n, ts, get)
		fmt.Fprintf(&b, "func (u *vrUser) Put%s(v %s) { u.F[%q] = v }\n", n, ts, n)
	}
	var onames []string
	for n := range others {
		onames = append(onames, n)
	}
	sort.Strings(onames)
	for _, n := range onames {
		sig := others[n]
		if sig.Params().Len() == 0 && sig.Results().Len() == 1 && goTypeString(sig.Results().At(0).Type()) == "bool" {
			fmt.Fprintf(&b, "func (u *vrUser) %s() bool { return true }\n", n)
		}
	}
	return b.String()
}

func (p *Program) valueMethodsSource() string {
	methods := map[string]types.Type{}
	for _, pk := range p.Pkgs {
		sc := pk.Types.Scope()
		for _, name := range sc.Names() {
			tn, ok := sc.Lookup(name).(*types.TypeName)
			if !ok || !isValuerIface(tn.Type()) {
				continue
			}
			ms := types.NewMethodSet(tn.Type())
			for i := 0; i < ms.Len(); i++ {
				f := ms.At(i).Obj().(*types.Func)
				sig := f.Type().(*types.Signature)
				if strings.HasPrefix(f.Name(), "Get") && sig.Params().Len() == 0 && sig.Results().Len() == 1 {
					methods[f.Name()] = sig.Results().At(0).Type()
				}
			}
		}
	}
	var names []string
	for n := range methods {
		names = append(names, n)
	}
	sort.Strings(names)
	var b strings.Builder
	for _, n := range names {
		ts := goTypeString(methods[n])
		f := n[3:]
		switch ts {
		case "string":
			fmt.Fprintf(&b, "func (v *vrValues) %s() string { return v.str(%q) }\n", n, f)
		case "bool":
			fmt.Fprintf(&b, "func (v *vrValues) %s() bool { b, _ := v.F[%q].(bool); return b }\n", n, f)
		default:
			fmt.Fprintf(&b, "func (v *vrValues) %s() %s { x, _ := v.F[%q].(%s); return x }\n", n, ts, f, ts)
		}
	}
	return b.String()
}

var replayRelevant = map[string]bool{"Body.Read": true, "Hash.Compare": true, "Hash.Generate": true, "Fire": true, "Sess.Put": true, "Sess.Del": true, "Sess.DelAll": true,
	"Cook.Put": true, "Cook.Del": true, "Respond": true, "Redirect": true, "Next.ServeHTTP": true, "WriteHeader": true, "SMS.Send": true, "Mail.Send": true, "Panic": true}

func kindProjection(kinds []string) []string {
	var out []string
	for _, k := range kinds {
		if k == "HTTPRedirect" {
			k = "WriteHeader" // http.Redirect sets Location and writes the header
		}
		if replayRelevant[k] || strings.HasPrefix(k, "Store.") {
			if k == "Store.New" {
				continue
			}
			out = append(out, k)
		}
	}
	return out
}

// tryReplay builds and runs the replay of a refuted obligation on the real code.
func tryReplay(o *Obligation, p *Program, repo string) map[string]interface{} {
	res := map[string]interface{}{"confirmed": false}
	plan, mv := p.buildReplay(o)
	if plan.Unsupported != "" {
		res["not_replayed"] = plan.Unsupported
		return res
	}
	src := p.harnessSource(plan)
	dir, _ := os.MkdirTemp("", "gvc-replay-")
	defer os.RemoveAll(dir)
	testFile := filepath.Join(dir, "zz_verif_replay_test.go")
	os.WriteFile(testFile, []byte(src), 0o644)
	target := filepath.Join(repo, plan.PkgDir, "zz_verif_replay_test.go")
	ov, _ := json.Marshal(map[string]interface{}{"Replace": map[string]string{target: testFile}})
	ovFile := filepath.Join(dir, "overlay.json")
	os.WriteFile(ovFile, ov, 0o644)
	ctx, cancel := context.WithTimeout(context.Background(), 180*time.Second)
	defer cancel()
	cmd := exec.CommandContext(ctx, "go", "test", "-tags", "verif", "-overlay", ovFile, "-vet=off", "-count=1", "-v", "-timeout", "60s", "-run", "TestVerifReplay$", "./"+plan.PkgDir)
	cmd.Dir = repo
	cmd.Env = append(os.Environ(), "GOFLAGS=-mod=mod", "GOPROXY=off", "GOSUMDB=off", "GOTOOLCHAIN=local")
	out, _ := cmd.CombinedOutput()
	txt := string(out)
	res["script"] = plan.Script
	res["harness_source"] = src
	res["pkg_dir"] = plan.PkgDir
	res["command"] = strings.Join(cmd.Args, " ") + "  (overlay injects the generated in-package test; nothing is written to the repository)"
	i := strings.Index(txt, "VERIF-REPLAY-TRACE ")
	if i < 0 {
		res["not_replayed"] = "harness did not run: " + firstLines(txt, 12)
		return res
	}
	line := txt[i+len("VERIF-REPLAY-TRACE "):]
	if j := strings.IndexByte(line, '\n'); j >= 0 {
		line = line[:j]
	}
	var got struct {
		Trace []struct {
			Kind string        `json:"kind"`
			Args []interface{} `json:"args"`
			Res  []interface{} `json:"res"`
		} `json:"trace"`
		Result []interface{} `json:"result"`
	}
	if err := json.Unmarshal([]byte(line), &got); err != nil {
		res["not_replayed"] = "cannot parse harness output: " + err.Error()
		return res
	}
	var gotKinds, wantKinds []string
	var concrete []string
	for _, e := range got.Trace {
		gotKinds = append(gotKinds, e.Kind)
		a, _ := json.Marshal(e.Args)
		r, _ := json.Marshal(e.Res)
		concrete = append(concrete, fmt.Sprintf("%s %s -> %s", e.Kind, a, r))
	}
	for _, e := range o.PathSt.Trace {
		wantKinds = append(wantKinds, e.Kind)
	}
	gp, wp := kindProjection(gotKinds), kindProjection(wantKinds)
	res["concrete_trace"] = concrete
	res["concrete_result"] = got.Result
	res["expected_effect_kinds"] = wp
	res["observed_effect_kinds"] = gp
	same := strings.Join(gp, "|") == strings.Join(wp, "|")
	res["same_path_on_real_code"] = same
	// results: error results must agree in nil-ness and boolean results in value
	// with what the model says the refuted path returns; a path without any
	// relevant effect is only confirmed through its results
	agree, compared := compareResults(o, mv, got.Result)
	res["results_compared"] = compared
	res["results_agree"] = agree
	if !agree || (len(wp) == 0 && compared == 0) {
		same = false
	}
	// The counterexample is confirmed when the real function, driven by the
	// model's inputs and environment answers, produces the effect sequence of
	// the refuted path (on which the clause is false under the model).
	res["confirmed"] = same
	return res
}

// cmdReplay re-runs the harness stored in a replay file against the current tree.
func cmdReplay(args []string) {
	repo := "/repo"
	var file string
	for i := 0; i < len(args); i++ {
		if args[i] == "--repo" && i+1 < len(args) {
			repo = args[i+1]
			i++
			continue
		}
		file = args[i]
	}
	data, err := os.ReadFile(file)
	if err != nil {
		fmt.Fprintln(os.Stderr, err)
		os.Exit(2)
	}
	var r map[string]interface{}
	if err := json.Unmarshal(data, &r); err != nil {
		fmt.Fprintln(os.Stderr, err)
		os.Exit(2)
	}
	fmt.Printf("obligation: %v\nstatus: %v (solver %v)\n", r["obligation"], r["status"], r["solver"])
	rp, _ := r["replay"].(map[string]interface{})
	src, _ := rp["harness_source"].(string)
	pkgDir, _ := rp["pkg_dir"].(string)
	if src == "" {
		fmt.Println("this replay file carries no executable harness (no failing input was found); solver output:")
		fmt.Println(r["solver_out"])
		os.Exit(1)
	}
	dir, _ := os.MkdirTemp("", "gvc-replay-")
	defer os.RemoveAll(dir)
	testFile := filepath.Join(dir, "zz_verif_replay_test.go")
	os.WriteFile(testFile, []byte(src), 0o644)
	ov, _ := json.Marshal(map[string]interface{}{"Replace": map[string]string{filepath.Join(repo, pkgDir, "zz_verif_replay_test.go"): testFile}})
	ovFile := filepath.Join(dir, "overlay.json")
	os.WriteFile(ovFile, ov, 0o644)
	run, _ := rp["run"].(string)
	if run == "" {
		run = "TestVerifReplay$"
	}
	cmd := exec.Command("go", "test", "-tags", "verif", "-overlay", ovFile, "-vet=off", "-count=1", "-v", "-timeout", "300s", "-run", run, "./"+pkgDir)
	cmd.Dir = repo
	cmd.Env = append(os.Environ(), "GOFLAGS=-mod=mod", "GOPROXY=off", "GOSUMDB=off", "GOTOOLCHAIN=local")
	out, _ := cmd.CombinedOutput()
	fmt.Println(string(out))
	fmt.Println("expected effect kinds on the refuted path:", rp["expected_effect_kinds"])
}

// compareResults compares the concrete results with the model's values of the
// symbolic results (error nil-ness, booleans, integers).
func compareResults(o *Obligation, mv modelVals, got []interface{}) (agree bool, compared int) {
	agree = true
	if o.Panicked || o.RetVal == nil || o.Fn == nil {
		return
	}
	var vals []Value
	if tv, ok := o.RetVal.(*TupleV); ok {
		vals = tv.V
	} else {
		vals = []Value{o.RetVal}
	}
	rs := o.Fn.Signature.Results()
	for i, v := range vals {
		if i >= len(got) || i >= rs.Len() {
			break
		}
		t, ok := v.(*Term)
		if !ok {
			continue
		}
		rt := rs.At(i).Type()
		switch {
		case isErrorType(rt):
			m, has := mv.of(t).(int64)
			if !has {
				continue
			}
			compared++
			s, _ := got[i].(string)
			if (m == 0) != (s == "nil") {
				agree = false
			}
		case t.S == SBool:
			m, has := mv.of(t).(bool)
			if !has {
				continue
			}
			compared++
			if b, ok := got[i].(bool); !ok || b != m {
				agree = false
			}
		case t.S == SStr:
			m, has := mv.of(t).(string)
			g, isStr := got[i].(string)
			if !has || !isStr || !isASCII(m) || !isASCII(g) {
				continue
			}
			compared++
			if g != m {
				agree = false
			}
		}
	}
	return
}

func isASCII(s string) bool {
	for i := 0; i < len(s); i++ {
		if s[i] >= 0x80 {
			return false
		}
	}
	return true
}

func isErrorType(t types.Type) bool {
	n, ok := t.(*types.Named)
	return ok && n.Obj().Pkg() == nil && n.Obj().Name() == "error"
}

// assertedRef strips the result shape of a type assertion, ite(is!T(x), x, nil).
func assertedRef(t *Term) *Term {
	for !t.Sym && t.Op == "ite" && len(t.Args) == 3 {
		t = t.Args[1]
	}
	return t
}

const oauth2Setup = `	vrProv := strings.ToLower(filepath.Base(st.script.Request.Path))
	ab.Config.Modules.OAuth2Providers = map[string]authboss.OAuth2Provider{vrProv: {
		OAuth2Config: &goauth2.Config{ClientID: "id", Endpoint: goauth2.Endpoint{AuthURL: "https://provider.invalid/auth", TokenURL: "https://provider.invalid/token"}},
		FindUserDetails: func(ctx context.Context, cfg goauth2.Config, tok *goauth2.Token) (map[string]string, error) {
			err := st.err(st.pop("CallFuncValue")["err"])
			st.emit("CallFuncValue", []interface{}{"FindUserDetails"}, []interface{}{vrErrName(err)})
			return map[string]string{"uid": "u"}, err
		},
	}}
	exchanger = func(cfg *goauth2.Config, ctx context.Context, code string, opts ...goauth2.AuthCodeOption) (*goauth2.Token, error) {
		err := st.err(st.pop("CallFuncValue")["err"])
		st.emit("CallFuncValue", []interface{}{"Exchange", code}, []interface{}{vrErrName(err)})
		if err != nil {
			return nil, err
		}
		return &goauth2.Token{AccessToken: "token"}, nil
	}
`
