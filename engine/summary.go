package main

// Modular calls: a callee whose contract carries "option summary" is not
// inlined. Its requires clauses become obligations of the caller at the call
// site, its results are havocked and its ensures clauses are assumed.

import (
	"fmt"

	"golang.org/x/tools/go/ssa"
)

func (v *Verifier) summaryHook(callerFC *FuncContract) func(ex *Executor, st *State, fn *ssa.Function, c *callCtx) ([]callResult, bool) {
	return func(ex *Executor, st *State, fn *ssa.Function, c *callCtx) ([]callResult, bool) {
		key := v.Prog.funcKey(fn)
		fc := v.CS.Funcs[key]
		if fc == nil || fc.Options["summary"] == "" {
			return nil, false
		}
		params := map[string]cval{}
		for i, p := range fn.Params {
			if i < len(c.Args) {
				params[p.Name()] = cval{V: c.Args[i], T: p.Type()}
			}
		}
		env := v.newEnv(ex, fn, fc, st, params)
		env.scratch = st
		for _, cl := range fc.Clauses {
			if cl.Kind != "requires" {
				continue
			}
			snap := st.Clone()
			env.scratch = snap
			goal, err := env.EvalBool(cl.Expr)
			name := fmt.Sprintf("call/%s/requires@%s", key, ex.pos(c.Pos))
			if err != nil {
				ex.LoopErrors = append(ex.LoopErrors, name+": "+err.Error())
				continue
			}
			ex.LoopObls = append(ex.LoopObls, &LoopObligation{Name: name, Kind: "call_requires", St: snap, Goal: goal})
			st.Assume(goal)
		}
		res := ex.havocResults(st, fn.Signature, "ret."+fn.Name())
		env = v.newEnv(ex, fn, fc, st, params)
		env.scratch = st
		env.ret = res
		for _, cl := range fc.Clauses {
			if cl.Kind != "ensures" {
				continue
			}
			t, err := env.EvalBool(cl.Expr)
			if err != nil {
				ex.LoopErrors = append(ex.LoopErrors, fmt.Sprintf("assuming %s/%s: %v", key, cl.Label, err))
				continue
			}
			st.Assume(t)
		}
		ex.UsedEnv["contract of "+key+" (proved against its body in the same check)"] = true
		v.UsedSummaries[key] = true
		return one(st, res), true
	}
}
