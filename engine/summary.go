package main

// Modular calls: a callee whose contract carries "option summary" is not
// inlined. Its requires clauses become obligations of the caller at the call
// site, its results are havocked and its ensures clauses are assumed.

import (
	"fmt"

	"golang.org/x/tools/go/ssa"
)

func (v *Verifier) summaryHook(callerFC *FuncContract) func(ex *Executor, st *State, fn *ssa.Function, c *callCtx) ([]callResult, bool) {
	return func(ex *Executor, st *State, fn *ssa.Function, c *callCtx) ([]callResult, bool) {
		key := v.Prog.funcKey(fn)
		fc := v.CS.Funcs[key]
		if fc == nil || fc.Options["summary"] == "" {
			return nil, false
		}
		params := map[string]cval{}
		for i, p := range fn.Params {
			if i < len(c.Args) {
				params[p.Name()] = cval{V: c.Args[i], T: p.Type()}
			}
		}
		env := v.newEnv(ex, fn, fc, st, params)
		env.scratch = st
		for _, cl := range fc.Clauses {
			if cl.Kind != "requires" {
				continue
			}
			snap := st.Clone()
			env.scratch = snap
			goal, err := env.EvalBool(cl.Expr)
			name := fmt.Sprintf("call/%s/requires@%s", key, ex.pos(c.Pos))
			if err != nil {
				ex.LoopErrors = append(ex.LoopErrors, name+": "+err.Error())
				continue
			}
			ex.LoopObls = append(ex.LoopObls, &LoopObligation{Name: name, Kind: "call_requires", St: snap, Goal: goal})
			st.Assume(goal)
		}
		res := ex.havocResults(st, fn.Signature, "ret."+fn.Name())
		// the modular call is an event of its own, so that callers' contracts can say
		// where a value came from ("the stored code is the one generated in this call")
		var resVals []Value
		if tv, ok := res.(*TupleV); ok {
			resVals = tv.V
		} else if res != nil {
			resVals = []Value{res}
		}
		st.Emit("Call."+fn.Name(), append([]Value(nil), c.Args...), resVals, ex.pos(c.Pos))
		env = v.newEnv(ex, fn, fc, st, params)
		env.scratch = st
		env.ret = res
		for _, cl := range fc.Clauses {
			if cl.Kind != "ensures" {
				continue
			}
			t, err := env.EvalBool(cl.Expr)
			if err != nil {
				ex.LoopErrors = append(ex.LoopErrors, fmt.Sprintf("assuming %s/%s: %v", key, cl.Label, err))
				continue
			}
			st.Assume(t)
		}
		ex.UsedEnv["contract of "+key+" (proved against its body in the same check)"] = true
		v.UsedSummaries[key] = true
		return one(st, res), true
	}
}

// ghostHook inserts Ghost.Set events after the events of fn's execution that
// match one of fn's ghost clauses.
func (v *Verifier) ghostHook() func(ex *Executor, fn *ssa.Function, args []Value, st *State, from int) {
	return func(ex *Executor, fn *ssa.Function, args []Value, st *State, from int) {
		fc := v.CS.Funcs[v.Prog.funcKey(fn)]
		if fc == nil || len(fc.Ghosts) == 0 {
			return
		}
		params := map[string]cval{}
		for i, p := range fn.Params {
			if i < len(args) {
				params[p.Name()] = cval{V: args[i], T: p.Type()}
			}
		}
		var out []*Event
		out = append(out, st.Trace[:from]...)
		for i := from; i < len(st.Trace); i++ {
			e := st.Trace[i]
			out = append(out, e)
			if e.Kind == "Ghost.Set" {
				continue
			}
			for _, g := range fc.Ghosts {
				if !kindMatches(g.Pattern.S, e.Kind) {
					continue
				}
				env := v.newEnv(ex, fn, fc, st, params)
				env.scratch = st
				cond, val, err := env.ghostMatch(g, e)
				if err != nil {
					ex.LoopErrors = append(ex.LoopErrors, fmt.Sprintf("ghost %s (line %d): %v", g.Name, g.Line, err))
					continue
				}
				if cond == TFalse {
					continue
				}
				out = append(out, &Event{Kind: "Ghost.Set", Args: []Value{StrLit(g.Name), val, cond}, Heap: e.Heap, Pos: e.Pos})
			}
		}
		st.Trace = out
	}
}

func (env *CEnv) ghostMatch(g *GhostClause, e *Event) (cond *Term, val Value, err error) {
	defer func() {
		if r := recover(); r != nil {
			if ee, ok := r.(*evalError); ok {
				err = ee
				return
			}
			panic(r)
		}
	}()
	cond = TTrue
	if len(g.Pattern.Kids) > len(e.Args) {
		cfail("pattern has more arguments than event %s", e.Kind)
	}
	for k, pat := range g.Pattern.Kids {
		cond = And(cond, env.match(pat, e.Args[k], e.Heap))
	}
	v := env.eval(g.Value)
	return cond, v.V, nil
}
