package main

// C20: ownership / frame discipline (DESIGN section 3). After Init/Setup no
// function reachable from a request writes through a pointer that is shared
// between requests (package variables, long-lived components, variables
// captured at set-up time), unless the write is dominated by taking a mutex
// reachable from the same object. Every non-test function of the repository
// gets one frame obligation; the obligation is decided on the SSA (a syntactic
// frame check in the style of an ownership type system), not by SMT.

import (
	"fmt"
	"go/token"
	"go/types"
	"sort"
	"strings"

	"golang.org/x/tools/go/ssa"
)

type frameFinding struct {
	Func string
	Pos  string
	What string
}

// setupTime reports functions that legitimately write shared state: they run
// before requests are served (initialisation / registration / construction).
func setupTime(fn *ssa.Function) bool {
	n := fn.Name()
	switch {
	case n == "init", strings.HasPrefix(n, "init#"), strings.HasPrefix(n, "init$"):
		return true
	case n == "Init", n == "Setup", n == "Defaults", n == "SetCore", n == "RegisterModule", n == "loadModule":
		return true
	case strings.HasPrefix(n, "New"), strings.HasPrefix(n, "Setup"):
		return true
	case n == "Before" || n == "After": // (*Events).Before/After: handler registration
		return fn.Signature.Recv() != nil && isNamed(fn.Signature.Recv().Type(), abPkg, "Events")
	case n == "Get" || n == "Post" || n == "Delete": // (*defaults.Router) route registration
		return fn.Signature.Recv() != nil && strings.HasSuffix(fn.Signature.Recv().Type().String(), "defaults.Router")
	}
	if fn.Parent() != nil {
		return setupTime(fn.Parent()) && !perRequest(fn)
	}
	return false
}

// perRequest: the function is invoked per request (it receives the request,
// the response writer or a context).
func perRequest(fn *ssa.Function) bool {
	for _, p := range fn.Params {
		t := p.Type()
		if isNamed(t, "net/http", "Request") || isNamed(t, "net/http", "ResponseWriter") || isNamed(t, "context", "Context") {
			return true
		}
		if pp, ok := t.(*types.Pointer); ok && isNamed(pp.Elem(), "net/http", "Request") {
			return true
		}
	}
	return false
}

// requestOwned types: objects created per request.
func requestOwnedType(t types.Type) bool {
	for {
		p, ok := t.(*types.Pointer)
		if !ok {
			break
		}
		t = p.Elem()
	}
	n, ok := t.(*types.Named)
	if !ok {
		return false
	}
	if n.Obj().Pkg() == nil {
		return false
	}
	switch n.Obj().Pkg().Path() + "." + n.Obj().Name() {
	case abPkg + ".ClientStateResponseWriter", "net/http.Request", "net/url.URL", "strings.Builder", "bytes.Buffer":
		return true
	}
	return false
}

// rootOf follows an address back to what it is derived from.
func rootOf(v ssa.Value, depth int) (kind string, root ssa.Value) {
	if depth > 20 {
		return "unknown", v
	}
	switch x := v.(type) {
	case *ssa.Global:
		return "global", x
	case *ssa.Alloc:
		return "local", x
	case *ssa.FieldAddr:
		return rootOf(x.X, depth+1)
	case *ssa.Field:
		return rootOf(x.X, depth+1)
	case *ssa.IndexAddr:
		return rootOf(x.X, depth+1)
	case *ssa.Slice:
		return rootOf(x.X, depth+1)
	case *ssa.ChangeType:
		return rootOf(x.X, depth+1)
	case *ssa.Convert:
		return rootOf(x.X, depth+1)
	case *ssa.MakeMap, *ssa.MakeSlice, *ssa.MakeInterface, *ssa.MakeClosure, *ssa.MakeChan:
		return "fresh", x
	case *ssa.Parameter:
		return "param", x
	case *ssa.FreeVar:
		return "freevar", x
	case *ssa.UnOp: // load of a pointer: the pointee belongs to whatever holds the pointer
		k, r := rootOf(x.X, depth+1)
		if k == "local" {
			// pointer stored in a local: look for what was stored
			if a, ok := r.(*ssa.Alloc); ok {
				for _, ref := range *a.Referrers() {
					if st, ok := ref.(*ssa.Store); ok && st.Addr == a {
						return rootOf(st.Val, depth+1)
					}
				}
			}
			return "local", r
		}
		return k, r
	case *ssa.Call:
		// result of a call: fresh unless it is an accessor of shared state
		if callee := x.Common().StaticCallee(); callee != nil {
			n := callee.Name()
			if n == "MustClientStateResponseWriter" {
				return "request", x
			}
			if strings.HasPrefix(n, "New") || n == "Clone" || strings.HasPrefix(n, "Make") {
				return "fresh", x
			}
		}
		return "call", x
	case *ssa.Phi:
		worst := "fresh"
		var wr ssa.Value = x
		for _, e := range x.Edges {
			k, r := rootOf(e, depth+1)
			if k == "global" || k == "param" || k == "freevar" {
				return k, r
			}
			if k != "fresh" && k != "local" {
				worst, wr = k, r
			}
		}
		return worst, wr
	case *ssa.Extract:
		return rootOf(x.Tuple, depth+1)
	case *ssa.TypeAssert:
		return rootOf(x.X, depth+1)
	case *ssa.Lookup:
		return rootOf(x.X, depth+1)
	case *ssa.Const:
		return "fresh", x
	}
	return "unknown", v
}

func sharedRoot(fn *ssa.Function, kind string, root ssa.Value) (bool, string) {
	switch kind {
	case "global":
		return true, "package variable " + root.Name()
	case "param":
		p := root.(*ssa.Parameter)
		t := p.Type()
		if requestOwnedType(t) {
			return false, ""
		}
		if pp, ok := t.(*types.Pointer); ok {
			if _, isPtrPtr := pp.Elem().(*types.Pointer); isPtrPtr && requestOwnedType(pp.Elem()) {
				return false, "" // **http.Request
			}
			t = pp.Elem()
		}
		// a long-lived component, by pointer or by value (a by-value copy still
		// shares whatever its pointer fields point to; writes into the copy's
		// own fields go to a local and are not reported)
		if n, ok := t.(*types.Named); ok && n.Obj().Pkg() != nil && strings.HasPrefix(n.Obj().Pkg().Path(), abPkg) {
			if _, isStruct := n.Underlying().(*types.Struct); isStruct && !valueLike(n) {
				return true, "long-lived component " + n.Obj().Name() + " (parameter " + p.Name() + ")"
			}
		}
		if _, isMap := t.Underlying().(*types.Map); isMap && fn.Signature.Recv() != nil && p == fn.Params[0] {
			// map-typed receiver (HTMLData, ErrorList...): request data
			return false, ""
		}
		return false, ""
	case "freevar":
		// a variable captured by a closure: shared when the closure was built at
		// set-up time and runs per request
		if decl := freeVarOrigin(fn, root.(*ssa.FreeVar)); decl != nil && !perRequest(decl) {
			fv := root.(*ssa.FreeVar)
			if pp, ok := fv.Type().(*types.Pointer); ok && requestOwnedType(pp.Elem()) {
				return false, ""
			}
			return true, "variable " + root.Name() + " captured at set-up time"
		}
		return false, ""
	}
	return false, ""
}

// externalMutators: methods of external types that mutate their receiver.
func externalMutator(callee *ssa.Function) bool {
	s := callee.String()
	if strings.HasPrefix(s, "(*math/rand.Rand).") || strings.HasPrefix(s, "(*sync.Map).Store") || strings.HasPrefix(s, "(*bytes.Buffer).Write") {
		return true
	}
	// library functions that rearrange the slice they are given in place
	switch s {
	case "sort.Strings", "sort.Ints", "sort.Float64s", "sort.Slice", "sort.SliceStable", "sort.Sort", "sort.Stable",
		"math/rand.Shuffle":
		return true
	}
	for _, p := range []string{"(net/url.Values).", "(net/http.Header).", "(net/textproto.MIMEHeader)."} {
		if strings.HasPrefix(s, p) {
			switch s[len(p):] {
			case "Set", "Add", "Del":
				return true // updates the map it is called on
			}
		}
	}
	if strings.HasPrefix(s, "slices.Sort") || strings.HasPrefix(s, "slices.Reverse") {
		return true // generic instantiations carry their type arguments in the name
	}
	return false
}

func lockedBefore(ins ssa.Instruction) bool {
	// a write is considered guarded if the same block (or a dominator) calls
	// Lock() on a sync.Mutex / RWMutex before it
	b := ins.Block()
	for blk := b; blk != nil; blk = blk.Idom() {
		for _, i := range blk.Instrs {
			if i == ins {
				break
			}
			if c, ok := i.(ssa.CallInstruction); ok {
				if callee := c.Common().StaticCallee(); callee != nil {
					s := callee.String()
					if (s == "(*sync.Mutex).Lock" || s == "(*sync.RWMutex).Lock") && len(c.Common().Args) > 0 {
						// the mutex itself must be shared: locking a copy (a
						// mutex inside a by-value receiver or a local) excludes nobody
						kind, root := rootOf(c.Common().Args[0], 0)
						switch kind {
						case "global", "freevar":
							return true
						case "param":
							if _, isPtr := root.Type().(*types.Pointer); isPtr {
								return true
							}
						}
					}
				}
			}
		}
	}
	return false
}

func (p *Program) frameCheck(fn *ssa.Function) []frameFinding {
	var out []frameFinding
	if fn.Blocks == nil || setupTime(fn) || onceBody(fn) {
		return nil
	}
	summ := p.containerSummaries()
	key := p.funcKey(fn)
	add := func(ins ssa.Instruction, what string) {
		pos := ""
		if ins.Pos().IsValid() {
			pp := p.Fset.Position(ins.Pos())
			f := pp.Filename
			if i := strings.LastIndex(f, "/repo/"); i >= 0 {
				f = f[i+6:]
			}
			pos = fmt.Sprintf("%s:%d", f, pp.Line)
		}
		out = append(out, frameFinding{Func: key, Pos: pos, What: what})
	}
	for _, b := range fn.Blocks {
		for _, ins := range b.Instrs {
			switch x := ins.(type) {
			case *ssa.Store:
				kind, root := rootOf(x.Addr, 0)
				if _, isAlloc := x.Addr.(*ssa.Alloc); isAlloc {
					continue
				}
				if shared, what := sharedRoot(fn, kind, root); shared && !lockedBefore(ins) {
					add(ins, "store through "+what)
				}
			case *ssa.MapUpdate:
				kind, root := rootOf(x.Map, 0)
				if shared, what := sharedRoot(fn, kind, root); shared && !lockedBefore(ins) {
					add(ins, "map update through "+what)
				}
			case ssa.CallInstruction:
				c := x.Common()
				if c.IsInvoke() {
					continue
				}
				callee := c.StaticCallee()
				if callee == nil {
					if bi, ok := c.Value.(*ssa.Builtin); ok && bi.Name() == "delete" && len(c.Args) > 0 {
						kind, root := rootOf(c.Args[0], 0)
						if shared, what := sharedRoot(fn, kind, root); shared && !lockedBefore(ins) {
							add(ins, "delete on map through "+what)
						}
					}
					// append / copy write into the backing array of their first operand: a
					// slice that belongs to a shared object (a scratch buffer kept in a
					// long-lived component - a by-value copy of the component shares it) is
					// written by every request that gets there
					if bi, ok := c.Value.(*ssa.Builtin); ok && (bi.Name() == "append" || bi.Name() == "copy") && len(c.Args) > 0 {
						if _, isSlice := c.Args[0].Type().Underlying().(*types.Slice); isSlice {
							kind, root := rootOf(c.Args[0], 0)
							if shared, what := sharedRoot(fn, kind, root); shared && !lockedBefore(ins) {
								add(ins, bi.Name()+" into the backing array of a slice reached from "+what)
							}
						}
					}
					continue
				}
				if !p.inRepo(callee) && strings.HasPrefix(callee.Name(), "Append") {
					// strconv.AppendInt, time.Time.AppendFormat, fmt.Append*, ...: append-style
					// library functions write into the slice they are given
					for _, a := range c.Args {
						if _, isSlice := a.Type().Underlying().(*types.Slice); !isSlice {
							continue
						}
						kind, root := rootOf(a, 0)
						if shared, what := sharedRoot(fn, kind, root); shared && !lockedBefore(ins) {
							add(ins, callee.Name()+" writes into the backing array of a slice reached from "+what)
						}
						break
					}
				}
				if p.inRepo(callee) {
					// a shared container handed to a callee that changes it, or that
					// publishes it into per-request state where later code changes it
					for j, a := range c.Args {
						why := summ[callee][j]
						if why == "" || !isContainer(a.Type()) {
							continue
						}
						kind, root := rootOf(a, 0)
						if shared, what := sharedRoot(fn, kind, root); shared && !lockedBefore(ins) {
							add(ins, "passes the container reached from "+what+" to "+callee.Name()+", which "+why)
						}
					}
				}
				if !p.inRepo(callee) && !singleWrite(callee) {
					// a shared io.Writer handed to code that may write to it several times:
					// the pieces of one request's output interleave with another's
					for _, a := range c.Args {
						if what := sharedWriterIn(fn, a, 0); what != "" && !lockedBefore(ins) {
							add(ins, "hands the writer reached from "+what+" to "+callee.String()+", which may write to it in several pieces (output of concurrent requests interleaves)")
						}
					}
				}
				if externalMutator(callee) && len(c.Args) > 0 {
					kind, root := rootOf(c.Args[0], 0)
					if shared, what := sharedRoot(fn, kind, root); shared && !lockedBefore(ins) {
						add(ins, "call of mutator "+callee.String()+" on an object reached from "+what)
					}
				}
			}
		}
	}
	// go statements: pointer-like arguments must not be written afterwards
	for _, b := range fn.Blocks {
		for i, ins := range b.Instrs {
			g, ok := ins.(*ssa.Go)
			if !ok {
				continue
			}
			// the request's response writer belongs to the goroutine that serves the request:
			// its queued client-state events and its header map are not synchronised, so a
			// goroutine started with it (argument, or captured by the closure that is started)
			// races with the handler and may outlive the response
			for _, a := range goReach(g) {
				if isResponseWriterType(a.Type()) {
					add(ins, "go statement hands the request's response writer ("+a.Name()+" "+a.Type().String()+") to another goroutine: the handler's goroutine owns it (client-state events and headers are unsynchronised)")
				}
			}
			for _, a := range g.Common().Args {
				switch a.Type().Underlying().(type) {
				case *types.Pointer, *types.Slice, *types.Map:
				default:
					continue
				}
				if requestOwnedType(a.Type()) {
					continue
				}
				// any store/map update through a after the go statement in this block or successors
				if writtenAfter(a, b, i) {
					add(ins, "argument "+a.Name()+" of a go statement is written after the goroutine was started")
				}
			}
		}
	}
	return out
}

// goReach lists what a go statement makes reachable from the new goroutine:
// its arguments and, for closures, their captured variables (a few levels deep).
func goReach(g *ssa.Go) []ssa.Value {
	var out []ssa.Value
	seen := map[ssa.Value]bool{}
	var walk func(v ssa.Value, d int)
	walk = func(v ssa.Value, d int) {
		if v == nil || seen[v] || d > 4 {
			return
		}
		seen[v] = true
		out = append(out, v)
		switch x := v.(type) {
		case *ssa.MakeClosure:
			for _, b := range x.Bindings {
				walk(b, d+1)
			}
		case *ssa.ChangeInterface:
			walk(x.X, d+1)
		case *ssa.MakeInterface:
			walk(x.X, d+1)
		case *ssa.UnOp:
			if x.Op == token.MUL {
				// a captured variable read back: what was stored in it
				if al, ok := x.X.(*ssa.Alloc); ok && al.Referrers() != nil {
					for _, r := range *al.Referrers() {
						if st, ok := r.(*ssa.Store); ok && st.Addr == al {
							walk(st.Val, d+1)
						}
					}
				}
			}
		case *ssa.Alloc:
			if x.Referrers() != nil {
				for _, r := range *x.Referrers() {
					if st, ok := r.(*ssa.Store); ok && st.Addr == x {
						walk(st.Val, d+1)
					}
				}
			}
		}
	}
	c := g.Common()
	walk(c.Value, 0)
	for _, a := range c.Args {
		walk(a, 0)
	}
	return out
}

// isResponseWriterType: an interface with the http.ResponseWriter methods, authboss's
// ClientStateResponseWriter, or a pointer to either.
func isResponseWriterType(t types.Type) bool {
	for {
		p, ok := t.(*types.Pointer)
		if !ok {
			break
		}
		t = p.Elem()
	}
	if n, ok := t.(*types.Named); ok && n.Obj().Pkg() != nil && n.Obj().Pkg().Path() == abPkg && n.Obj().Name() == "ClientStateResponseWriter" {
		return true
	}
	it, ok := t.Underlying().(*types.Interface)
	if !ok {
		return false
	}
	has := map[string]bool{}
	for i := 0; i < it.NumMethods(); i++ {
		has[it.Method(i).Name()] = true
	}
	return has["WriteHeader"] && has["Header"] && has["Write"]
}

func writtenAfter(a ssa.Value, b *ssa.BasicBlock, idx int) bool {
	seen := map[*ssa.BasicBlock]bool{}
	var walk func(blk *ssa.BasicBlock, from int) bool
	walk = func(blk *ssa.BasicBlock, from int) bool {
		for _, ins := range blk.Instrs[from:] {
			switch x := ins.(type) {
			case *ssa.Store:
				if _, r := rootOf(x.Addr, 0); r == a {
					return true
				}
			case *ssa.MapUpdate:
				if x.Map == a {
					return true
				}
			}
		}
		for _, s := range blk.Succs {
			if !seen[s] {
				seen[s] = true
				if walk(s, 0) {
					return true
				}
			}
		}
		return false
	}
	return walk(b, idx+1)
}

// addFrameObligations creates one obligation per non-test function.
func (v *Verifier) addFrameObligations() {
	keys := v.Prog.sortedFuncKeys()
	for _, k := range keys {
		if strings.HasPrefix(k, "mocks:") {
			continue
		}
		fn := v.Prog.Funcs[k]
		if fn.Synthetic != "" && !strings.Contains(fn.Synthetic, "bound") {
			continue
		}
		finds := v.Prog.frameCheck(fn)
		name := strings.Replace(k, ":", ".", 1) + "/assigns_no_shared"
		ob := &Obligation{Name: "frame/" + name, Func: k, Label: "assigns_no_shared", Kind: "frame", Goal: TTrue}
		if setupTime(fn) {
			ob.Notes = []string{"set-up time function: exempt (runs before requests are served)"}
		}
		if len(finds) > 0 {
			ob.Goal = TFalse
			var notes []string
			for _, f := range finds {
				notes = append(notes, f.Pos+": "+f.What)
			}
			sort.Strings(notes)
			ob.Notes = notes
			ob.Trace = notes
		}
		// known findings carve-out (by obligation name)
		for _, kf := range v.knownFor(ob.Name) {
			if ob.Goal == TFalse {
				v.Regions = append(v.Regions, &Obligation{Name: ob.Name, Func: k, Label: ob.Label, Kind: "known_region", Goal: TTrue, WantSat: true, Notes: []string{kf.What + " [" + strings.Join(ob.Notes, "; ") + "]"}})
				ob.Goal = TTrue
				ob.Notes = append(ob.Notes, "known finding: "+kf.What)
			}
		}
		v.Obls = append(v.Obls, ob)
	}
}

// valueLike: plain data structs that travel with a request (options, e-mails,
// events): not components.
func valueLike(n *types.Named) bool {
	switch n.Obj().Name() {
	case "RedirectOptions", "EmailResponseOptions", "Email", "ClientStateEvent", "LocalizationKey", "FieldError", "Rules", "HTMLData":
		return true
	}
	return false
}

// freeVarOrigin: the function that declares the variable a closure captured
// (a closure inside a per-request closure may capture a variable that was
// declared further out, at set-up time).
func freeVarOrigin(fn *ssa.Function, fv *ssa.FreeVar) *ssa.Function {
	for depth := 0; depth < 10; depth++ {
		par := fn.Parent()
		if par == nil {
			return nil
		}
		idx := -1
		for i, f := range fn.FreeVars {
			if f == fv {
				idx = i
			}
		}
		if idx < 0 {
			return par
		}
		var bound ssa.Value
		for _, b := range par.Blocks {
			for _, ins := range b.Instrs {
				if mc, ok := ins.(*ssa.MakeClosure); ok && mc.Fn == fn && idx < len(mc.Bindings) {
					bound = mc.Bindings[idx]
				}
			}
		}
		up, ok := bound.(*ssa.FreeVar)
		if !ok {
			return par // declared in the parent (an Alloc there)
		}
		fn, fv = par, up
	}
	return nil
}

// onceBody: a function literal whose only use is as the argument of
// (*sync.Once).Do runs at most once, with a happens-before edge to every
// return of Do: its writes are synchronised.
func onceBody(fn *ssa.Function) bool {
	par := fn.Parent()
	if par == nil {
		return false
	}
	uses, once := 0, 0
	for _, b := range par.Blocks {
		for _, ins := range b.Instrs {
			mc, ok := ins.(*ssa.MakeClosure)
			if !ok || mc.Fn != fn {
				continue
			}
			for _, ref := range *mc.Referrers() {
				if _, dbg := ref.(*ssa.DebugRef); dbg {
					continue
				}
				uses++
				if c, ok := ref.(ssa.CallInstruction); ok {
					if callee := c.Common().StaticCallee(); callee != nil && callee.String() == "(*sync.Once).Do" {
						once++
					}
				}
			}
		}
	}
	return uses > 0 && uses == once
}

func isContainer(t types.Type) bool {
	switch t.Underlying().(type) {
	case *types.Map, *types.Slice:
		return true
	}
	return false
}

func throughIface(v ssa.Value) ssa.Value {
	for {
		switch x := v.(type) {
		case *ssa.MakeInterface:
			v = x.X
		case *ssa.ChangeType:
			v = x.X
		case *ssa.ChangeInterface:
			v = x.X
		default:
			return v
		}
	}
}

// containerSummaries: for every function of the repository, which of its map /
// slice parameters it changes, or publishes into the request context (where
// HTMLData.Merge and friends change it later). Least fixpoint over static calls.
func (p *Program) containerSummaries() map[*ssa.Function]map[int]string {
	if p.contSumm != nil {
		return p.contSumm
	}
	summ := map[*ssa.Function]map[int]string{}
	paramIdx := func(fn *ssa.Function, v ssa.Value) int {
		kind, root := rootOf(throughIface(v), 0)
		if kind != "param" {
			return -1
		}
		for i, q := range fn.Params {
			if q == root && isContainer(q.Type()) {
				return i
			}
		}
		return -1
	}
	set := func(fn *ssa.Function, i int, why string) bool {
		if i < 0 {
			return false
		}
		if summ[fn] == nil {
			summ[fn] = map[int]string{}
		}
		if summ[fn][i] != "" {
			return false
		}
		summ[fn][i] = why
		return true
	}
	for changed := true; changed; {
		changed = false
		for _, fn := range p.Funcs {
			for _, b := range fn.Blocks {
				for _, ins := range b.Instrs {
					switch x := ins.(type) {
					case *ssa.Store:
						if _, isAlloc := x.Addr.(*ssa.Alloc); !isAlloc {
							if set(fn, paramIdx(fn, x.Addr), "stores into it") {
								changed = true
							}
						}
					case *ssa.MapUpdate:
						if set(fn, paramIdx(fn, x.Map), "updates it") {
							changed = true
						}
					case ssa.CallInstruction:
						c := x.Common()
						if c.IsInvoke() {
							continue
						}
						callee := c.StaticCallee()
						if callee == nil {
							if bi, ok := c.Value.(*ssa.Builtin); ok && bi.Name() == "delete" && len(c.Args) > 0 {
								if set(fn, paramIdx(fn, c.Args[0]), "deletes from it") {
									changed = true
								}
							}
							continue
						}
						if callee.String() == "context.WithValue" && len(c.Args) == 3 {
							if set(fn, paramIdx(fn, c.Args[2]), "publishes it into the request context, where later merges write into it") {
								changed = true
							}
							continue
						}
						for j, a := range c.Args {
							if why := summ[callee][j]; why != "" {
								if set(fn, paramIdx(fn, a), why+" (via "+callee.Name()+")") {
									changed = true
								}
							}
						}
					}
				}
			}
		}
	}
	p.contSumm = summ
	return summ
}

// singleWrite: library functions that format into a buffer of their own and
// hand the result to the writer in one Write call.
func singleWrite(callee *ssa.Function) bool {
	switch callee.String() {
	case "fmt.Fprintf", "fmt.Fprint", "fmt.Fprintln", "io.WriteString":
		return true
	}
	return false
}

func isWriterType(t types.Type) bool {
	it, ok := t.Underlying().(*types.Interface)
	if !ok {
		return false
	}
	for i := 0; i < it.NumMethods(); i++ {
		if it.Method(i).Name() == "Write" {
			return true
		}
	}
	return false
}

// sharedWriterIn: v is, or wraps (interface boxing, struct literal), an
// io.Writer reached from shared state.
func sharedWriterIn(fn *ssa.Function, v ssa.Value, depth int) string {
	if depth > 6 {
		return ""
	}
	if isWriterType(v.Type()) {
		kind, root := rootOf(v, 0)
		if shared, what := sharedRoot(fn, kind, root); shared {
			return what
		}
	}
	switch x := v.(type) {
	case *ssa.MakeInterface:
		return sharedWriterIn(fn, x.X, depth+1)
	case *ssa.ChangeInterface:
		return sharedWriterIn(fn, x.X, depth+1)
	case *ssa.UnOp:
		if a, ok := x.X.(*ssa.Alloc); ok {
			for _, ref := range *a.Referrers() {
				fa, ok := ref.(*ssa.FieldAddr)
				if !ok {
					continue
				}
				for _, r2 := range *fa.Referrers() {
					if st, ok := r2.(*ssa.Store); ok && st.Addr == fa {
						if w := sharedWriterIn(fn, st.Val, depth+1); w != "" {
							return w
						}
					}
				}
			}
		}
	case *ssa.Alloc:
		for _, ref := range *x.Referrers() {
			if fa, ok := ref.(*ssa.FieldAddr); ok {
				for _, r2 := range *fa.Referrers() {
					if st, ok := r2.(*ssa.Store); ok && st.Addr == fa {
						if w := sharedWriterIn(fn, st.Val, depth+1); w != "" {
							return w
						}
					}
				}
			}
		}
	}
	return ""
}
