package main

import (
	"golang.org/x/tools/go/ssa"
)

type LoopContract struct {
	Ordinal int
	Header  *ssa.BasicBlock
	Invs    []*Clause
}

type LoopObligation struct {
	Name string
	Kind string // "init" | "preserved"
	St   *State
	Goal *Term
}

func (ex *Executor) loopContractFor(fr *frame, b *ssa.BasicBlock) *LoopContract {
	if fr.fn != ex.Root || ex.LoopInv == nil {
		return nil
	}
	return ex.LoopInv[b]
}

func (ex *Executor) jumpLoopHeader(st *State, fr *frame, from, b *ssa.BasicBlock, lc *LoopContract) bool {
	return false
}

