package main

// Loops with invariants: the loop is cut at its header. On entry the
// invariant is an obligation (init); the header's phis and everything the
// body may write are havocked and the invariant is assumed; a path that comes
// back to the header proves the invariant again (preserved) and ends.

import (
	"fmt"
	"go/types"
	"strings"

	"golang.org/x/tools/go/ssa"
)

type LoopContract struct {
	Ordinal int
	Header  *ssa.BasicBlock
	Invs    []*Clause
}

type LoopObligation struct {
	Name string
	Kind string // "loop_init" | "loop_preserved"
	St   *State
	Goal *Term
}

func (ex *Executor) loopContractFor(fr *frame, b *ssa.BasicBlock) *LoopContract {
	if fr.fn != ex.Root || ex.LoopInv == nil || fr.parent != nil {
		return nil
	}
	return ex.LoopInv[b]
}

// loopBlocks returns the natural loop of header h (blocks dominated by h that
// can reach a back-edge source).
func loopBlocks(h *ssa.BasicBlock) map[*ssa.BasicBlock]bool {
	in := map[*ssa.BasicBlock]bool{h: true}
	var work []*ssa.BasicBlock
	for _, p := range h.Preds {
		if h.Dominates(p) {
			work = append(work, p)
		}
	}
	for len(work) > 0 {
		b := work[len(work)-1]
		work = work[:len(work)-1]
		if in[b] {
			continue
		}
		in[b] = true
		for _, p := range b.Preds {
			if !in[p] {
				work = append(work, p)
			}
		}
	}
	return in
}

func (ex *Executor) loopVars(st *State, fr *frame, b *ssa.BasicBlock) map[string]cval {
	vars := map[string]cval{}
	for k, v := range fr.names {
		vars[k] = v
	}
	for _, ins := range b.Instrs {
		phi, ok := ins.(*ssa.Phi)
		if !ok {
			break
		}
		if phi.Comment != "" {
			vars[phi.Comment] = cval{V: fr.regs[phi], T: phi.Type()}
		}
	}
	return vars
}

func (ex *Executor) evalInvariants(st *State, fr *frame, b *ssa.BasicBlock, lc *LoopContract, kind string) {
	vars := ex.loopVars(st, fr, b)
	for _, c := range lc.Invs {
		env := ex.loopEnv(st)
		for k, v := range vars {
			// a loop variable that shadows a parameter (the parameter is reassigned in the
			// loop): the entry value stays reachable as <name>0
			if pv, shadows := env.vars[k]; shadows {
				if _, taken := env.vars[k+"0"]; !taken {
					env.vars[k+"0"] = pv
				}
			}
			env.vars[k] = v
		}
		snap := st.Clone()
		env.scratch = snap
		goal, err := env.EvalBool(c.Expr)
		name := fmt.Sprintf("loop#%d/%s/%s", lc.Ordinal, c.Label, strings.TrimPrefix(kind, "loop_"))
		if err != nil {
			ex.LoopErrors = append(ex.LoopErrors, fmt.Sprintf("%s: %v", name, err))
			continue
		}
		ex.LoopObls = append(ex.LoopObls, &LoopObligation{Name: name, Kind: kind, St: snap, Goal: goal})
	}
}

func (ex *Executor) assumeInvariants(st *State, fr *frame, b *ssa.BasicBlock, lc *LoopContract) {
	vars := ex.loopVars(st, fr, b)
	for _, c := range lc.Invs {
		env := ex.loopEnv(st)
		for k, v := range vars {
			// a loop variable that shadows a parameter (the parameter is reassigned in the
			// loop): the entry value stays reachable as <name>0
			if pv, shadows := env.vars[k]; shadows {
				if _, taken := env.vars[k+"0"]; !taken {
					env.vars[k+"0"] = pv
				}
			}
			env.vars[k] = v
		}
		env.scratch = st
		t, err := env.EvalBool(c.Expr)
		if err != nil {
			ex.LoopErrors = append(ex.LoopErrors, fmt.Sprintf("loop#%d/%s (assume): %v", lc.Ordinal, c.Label, err))
			continue
		}
		st.Assume(t)
	}
}

func (ex *Executor) jumpLoopHeader(st *State, fr *frame, from, b *ssa.BasicBlock, lc *LoopContract) bool {
	if fr.inLoop[b] {
		// back edge: prove the invariant for the next iteration and stop
		ex.enterBlock(st, fr, from, b)
		ex.evalInvariants(st, fr, b, lc, "loop_preserved")
		return false
	}
	// entry from outside
	ex.enterBlock(st, fr, from, b)
	ex.evalInvariants(st, fr, b, lc, "loop_init")
	ex.havocLoop(st, fr, b)
	fr.inLoop[b] = true
	ex.assumeInvariants(st, fr, b, lc)
	return !st.Infeasible()
}

// havocLoop forgets everything the loop body may change.
func (ex *Executor) havocLoop(st *State, fr *frame, h *ssa.BasicBlock) {
	blocks := loopBlocks(h)
	for _, ins := range h.Instrs {
		phi, ok := ins.(*ssa.Phi)
		if !ok {
			break
		}
		old := fr.regs[phi]
		nv := ex.havocLike(st, old, phi.Type(), "loop."+phi.Comment)
		fr.regs[phi] = nv
		if phi.Comment != "" && fr.names != nil {
			fr.names[phi.Comment] = cval{V: nv, T: phi.Type()}
		}
	}
	callsInRepo := false
	for b := range blocks {
		for _, ins := range b.Instrs {
			switch x := ins.(type) {
			case *ssa.Store:
				if p, ok := ex.get(st, fr, x.Addr).(*PtrV); ok {
					if _, isAlloc := x.Addr.(*ssa.Alloc); isAlloc || true {
						old := st.Cells[p.Cell]
						if old != nil {
							st.Cells[p.Cell] = ex.havocLike(st, old, nil, fmt.Sprintf("loop.cell%d", p.Cell))
						}
					}
				} else if ia, ok := x.Addr.(*ssa.IndexAddr); ok {
					// element store: havoc the backing array of the slice
					switch b := ex.get(st, fr, ia.X).(type) {
					case *SymSliceV:
						if b.Cell != 0 {
							if cur, ok := st.Cells[b.Cell].(*Term); ok {
								st.Cells[b.Cell] = ex.Fresh("loop.arr", cur.S)
							}
						} else {
							st.Note("loop body stores into immutable symbolic slice %s", ia.X.Name())
						}
					case *SliceV:
						if av, ok := st.Cells[b.Cell].(*ArrayV); ok && !b.Nil {
							st.Cells[b.Cell] = ex.havocLike(st, av, nil, "loop.elems")
						}
					case *BufV:
						if cur := ex.bufFull(st, b); cur != nil {
							nw := ex.Fresh("loop.buf", SStr)
							st.Fact(Eq(StrLen(nw), StrLen(cur)))
							ex.bufSetFull(st, b, nw)
						}
					default:
						st.Note("loop body stores through %s (not havocked precisely)", x.Addr.Name())
					}
				} else {
					st.Note("loop body stores through %s (not havocked precisely)", x.Addr.Name())
				}
			case *ssa.MapUpdate:
				if mv, ok := ex.get(st, fr, x.Map).(*MapV); ok {
					if md, ok := st.Cells[mv.Cell].(*MapData); ok {
						// an arbitrary map with the same type: opaque base
						st.Cells[mv.Cell] = &MapData{Base: ex.Fresh("loop.map", SInt), T: md.T}
					}
				}
			case ssa.CallInstruction:
				c := x.Common()
				if c.IsInvoke() {
					if strings.HasPrefix(c.Method.Name(), "Put") && isUserIface(c.Value.Type()) {
						f := c.Method.Name()[3:]
						if s, ok := ex.Prog.userFieldSort(f); ok {
							st.UHeap[f] = ex.Fresh("uh!loop!"+f, SArr(SInt, s))
						}
					}
					continue
				}
				if fn, ok := c.Value.(*ssa.Function); ok && ex.Prog.inRepo(fn) {
					callsInRepo = true
				}
				// a map handed to a callee (url.Values.Set/Add/Del, a helper that fills it):
				// the callee may update it, so its content is forgotten like after a MapUpdate
				for _, a := range c.Args {
					if _, isMap := a.Type().Underlying().(*types.Map); !isMap {
						continue
					}
					if mv, ok := ex.get(st, fr, a).(*MapV); ok {
						if md, ok := st.Cells[mv.Cell].(*MapData); ok {
							st.Cells[mv.Cell] = &MapData{Base: ex.Fresh("loop.map", SInt), T: md.T}
						}
					}
				}
				// likewise a pointer to a local handed to a callee: what it points to may be
				// written by the callee (the scan of the loop's own blocks does not see that)
				for _, a := range c.Args {
					if _, isPtr := a.Type().Underlying().(*types.Pointer); !isPtr {
						continue
					}
					if p, ok := ex.get(st, fr, a).(*PtrV); ok && len(p.Path) == 0 {
						if old := st.Cells[p.Cell]; old != nil {
							st.Cells[p.Cell] = ex.havocLike(st, old, nil, fmt.Sprintf("loop.cell%d", p.Cell))
						}
					}
				}
				if b, ok := c.Value.(*ssa.Builtin); ok && (b.Name() == "append" || b.Name() == "delete" || b.Name() == "copy") {
					// appends produce new values (phis); delete/copy mutate
					if b.Name() != "append" {
						st.Note("loop body uses builtin %s", b.Name())
					}
				}
			}
		}
	}
	if callsInRepo {
		// conservative: in-repo callees may update user records
		for f := range st.UHeap {
			if s, ok := ex.Prog.userFieldSort(f); ok {
				st.UHeap[f] = ex.Fresh("uh!loop!"+f, SArr(SInt, s))
			}
		}
	}
}

// havocLike produces an unconstrained value with the same representation as old.
func (ex *Executor) havocLike(st *State, old Value, t types.Type, hint string) Value {
	switch x := old.(type) {
	case *Term:
		return ex.Fresh(hint, x.S)
	case *TimeV:
		return &TimeV{T: ex.Fresh(hint, SInt)}
	case *BytesV:
		return &BytesV{T: ex.Fresh(hint, SStr)}
	case *StructV:
		n := &StructV{T: x.T}
		for i, f := range x.F {
			n.F = append(n.F, ex.havocLike(st, f, nil, fmt.Sprintf("%s.%d", hint, i)))
		}
		return n
	case *TupleV:
		n := &TupleV{}
		for i, f := range x.V {
			n.V = append(n.V, ex.havocLike(st, f, nil, fmt.Sprintf("%s.%d", hint, i)))
		}
		return n
	case *SymSliceV:
		arr := ex.Fresh(hint+".arr", ex.symArr(st, x).S)
		ln := ex.Fresh(hint+".len", SInt)
		st.Fact(Ge(ln, IntLit(0)))
		return ex.newSymSlice(st, arr, ln, x.ElemT)
	case *SliceV:
		// a concrete slice that changes in the loop: unknown length
		if t != nil {
			if sl, ok := t.Underlying().(*types.Slice); ok {
				if es, ok := scalarSort(sl.Elem()); ok {
					arr := ex.Fresh(hint+".arr", SArr(SInt, es))
					ln := ex.Fresh(hint+".len", SInt)
					st.Fact(Ge(ln, IntLit(0)))
					return ex.newSymSlice(st, arr, ln, sl.Elem())
				}
			}
		}
	case *ArrayV:
		n := &ArrayV{}
		for i, f := range x.E {
			n.E = append(n.E, ex.havocLike(st, f, nil, fmt.Sprintf("%s.%d", hint, i)))
		}
		return n
	case *IfaceV:
		return ex.Fresh(hint, SInt)
	case *MapData:
		return &MapData{Base: ex.Fresh(hint, SInt), T: x.T}
	}
	if t != nil {
		return ex.havoc(st, t, hint)
	}
	st.Note("cannot havoc %s precisely", showValue(old))
	return old
}
