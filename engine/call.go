package main

import (
	"fmt"
	"go/token"
	"go/types"
	"strings"

	"golang.org/x/tools/go/ssa"
)

type callCtx struct {
	Name string
	Recv Value   // receiver for invoke-mode calls
	Args []Value // includes receiver for static method calls
	Sig  *types.Signature
	Pos  token.Pos
	Fr   *frame
	Site ssa.Value
}

type EnvFn func(ex *Executor, st *State, c *callCtx) []callResult

type EnvEntry struct {
	Fn       EnvFn
	Contract string // the assumed contract, in words (goes to trusted_base)
	InRepo   bool   // summary of an in-repo function (must be proved elsewhere or listed)
}

var envTable = map[string]*EnvEntry{}

func regEnv(name, contract string, fn EnvFn) {
	envTable[name] = &EnvEntry{Fn: fn, Contract: contract}
}

func regSummary(name, contract string, fn EnvFn) {
	envTable[name] = &EnvEntry{Fn: fn, Contract: contract, InRepo: true}
}

func one(st *State, v Value) []callResult { return []callResult{{St: st, Ret: v}} }

func (ex *Executor) call(st *State, fr *frame, c *ssa.CallCommon, site ssa.Value, pos token.Pos) []callResult {
	args := make([]Value, len(c.Args))
	for i, a := range c.Args {
		args[i] = ex.get(st, fr, a)
	}
	sig := c.Signature()
	if c.IsInvoke() {
		recv := ex.get(st, fr, c.Value)
		if iv, ok := recv.(*IfaceV); ok {
			if fn := ex.Prog.lookupMethod(iv.Dyn, c.Method); fn != nil {
				return ex.callFunc(st, fr, fn, append([]Value{iv.V}, args...), nil, pos, site)
			}
		}
		key := c.Method.FullName()
		if impl := defaultImpl[key]; impl != "" {
			if fn := ex.Prog.Funcs[impl]; fn != nil {
				ex.UsedEnv["default implementation: "+key+" -> "+impl] = true
				return ex.callFunc(st, fr, fn, append([]Value{recv}, args...), nil, pos, site)
			}
		}
		cc := &callCtx{Name: key, Recv: recv, Args: args, Sig: sig, Pos: pos, Fr: fr, Site: site}
		if rt, ok := recv.(*Term); ok {
			ex.nilCheck(st, rt, "method call on nil interface ("+c.Method.Name()+")", pos)
		}
		if e := envTable[key]; e != nil {
			ex.UsedEnv[key] = true
			return e.Fn(ex, st, cc)
		}
		if rs := ex.genericInvoke(st, cc, c.Method); rs != nil {
			return rs
		}
		return ex.unmodelled(st, cc)
	}
	switch callee := c.Value.(type) {
	case *ssa.Builtin:
		return ex.builtin(st, fr, callee, args, c, pos)
	case *ssa.Function:
		return ex.callFunc(st, fr, callee, args, nil, pos, site)
	case *ssa.MakeClosure:
		var bind []Value
		for _, b := range callee.Bindings {
			bind = append(bind, ex.get(st, fr, b))
		}
		return ex.callFunc(st, fr, callee.Fn.(*ssa.Function), args, bind, pos, site)
	}
	fv := ex.get(st, fr, c.Value)
	switch f := fv.(type) {
	case *FuncV:
		return ex.callFunc(st, fr, f.Fn, args, nil, pos, site)
	case *ClosureV:
		return ex.callFunc(st, fr, f.Fn, args, f.Bind, pos, site)
	case *BoundV:
		return ex.callFunc(st, fr, f.Fn, append([]Value{f.Recv}, args...), nil, pos, site)
	}
	// call of an opaque function value
	cc := &callCtx{Name: "funcvalue", Args: append([]Value{fv}, args...), Sig: sig, Pos: pos, Fr: fr, Site: site}
	return ex.opaqueFuncCall(st, cc)
}

func (ex *Executor) callFunc(st *State, fr *frame, fn *ssa.Function, args []Value, bind []Value, pos token.Pos, site ssa.Value) []callResult {
	name := fn.String()
	if fn.Origin() != nil {
		name = fn.Origin().String()
	}
	name = strings.TrimSuffix(name, "$thunk")
	cc := &callCtx{Name: name, Args: args, Sig: fn.Signature, Pos: pos, Fr: fr, Site: site}
	if ex.SummaryHook != nil && fn != ex.Root {
		if rs, ok := ex.SummaryHook(ex, st, fn, cc); ok {
			return rs
		}
	}
	if e := envTable[name]; e != nil && !(e.InRepo && fn == ex.Root) {
		ex.UsedEnv[name] = true
		return e.Fn(ex, st, cc)
	}
	if fn.Blocks != nil && ex.Prog.inRepo(fn) {
		if fr.depth >= ex.MaxDepth {
			st.Note("inline depth limit at %s", name)
			return ex.unmodelled(st, cc)
		}
		if ex.onStack(fr, fn) {
			st.Note("recursion at %s", name)
			return ex.unmodelled(st, cc)
		}
		ex.Inlined[name] = true
		fr.callee = fn
		base := st.Clone()
		rs := ex.exploreInline(fn, st, args, bind, fr)
		fr.callee = nil
		if ex.GhostHook != nil {
			for _, r := range rs {
				ex.GhostHook(ex, fn, args, r.St, len(base.Trace))
			}
		}
		return ex.mergePure(base, rs)
	}
	if rs := ex.genericStatic(st, cc, fn); rs != nil {
		return rs
	}
	return ex.unmodelled(st, cc)
}

func (ex *Executor) onStack(fr *frame, fn *ssa.Function) bool {
	for f := fr; f != nil; f = f.parent {
		if f.fn == fn {
			return true
		}
	}
	return false
}

func (ex *Executor) exploreInline(fn *ssa.Function, st *State, args []Value, bind []Value, parent *frame) []callResult {
	nf := &frame{fn: fn, regs: map[ssa.Value]Value{}, block: fn.Blocks[0], depth: parent.depth + 1, visits: map[*ssa.BasicBlock]int{}, bind: bind, inLoop: map[*ssa.BasicBlock]bool{}, parent: parent}
	for i, p := range fn.Params {
		if i < len(args) {
			nf.regs[p] = args[i]
		}
	}
	var out []callResult
	ex.run(st, nf, &out)
	return out
}

func (ex *Executor) unmodelled(st *State, c *callCtx) []callResult {
	st.Emit("Unmodelled", []Value{StrLit(c.Name)}, nil, ex.pos(c.Pos))
	st.Note("unmodelled call %s", c.Name)
	res := ex.havocResults(st, c.Sig, "um")
	// what an unknown function returns may carry its textual operands (an error that
	// quotes the input, a formatted string): string and error results become applications
	// of a symbol of their own to the string operands, so that the information-flow rule
	// (C17) sees the operands inside them; the values stay as unconstrained as before
	var strArgs []*Term
	for _, a := range append(append([]Value(nil), c.Args...), c.Recv) {
		switch x := a.(type) {
		case *Term:
			if x.S == SStr {
				strArgs = append(strArgs, x)
			}
		case *BytesV:
			strArgs = append(strArgs, x.T)
		}
	}
	if len(strArgs) > 0 {
		carry := func(v Value, t types.Type) Value {
			x, ok := v.(*Term)
			if !ok || !x.Sym || len(x.Args) != 0 {
				return v
			}
			if x.S == SStr || (x.S == SInt && t != nil && t.String() == "error") {
				n := App(strings.Trim(x.Op, "|")+"!of", x.S, strArgs...)
				if x.S == SInt {
					st.Fact(Or(isNilT(n), App("env_error", SBool, n)))
				}
				return n
			}
			return v
		}
		rs := c.Sig.Results()
		if tv, ok := res.(*TupleV); ok {
			for i := range tv.V {
				if i < rs.Len() {
					tv.V[i] = carry(tv.V[i], rs.At(i).Type())
				}
			}
		} else if res != nil && rs.Len() == 1 {
			res = carry(res, rs.At(0).Type())
		}
	}
	return one(st, res)
}

func (ex *Executor) opaqueFuncCall(st *State, c *callCtx) []callResult {
	res := ex.havocResults(st, c.Sig, "fv")
	var rs []Value
	if tv, ok := res.(*TupleV); ok {
		rs = tv.V
	} else if res != nil {
		rs = []Value{res}
	}
	if len(rs) == 2 {
		// Go convention assumed for external function values returning
		// (*T, error): a nil error comes with a non-nil pointer
		if _, isPtr := c.Sig.Results().At(0).Type().Underlying().(*types.Pointer); isPtr {
			if p, ok := rs[0].(*Term); ok {
				if e, ok := rs[1].(*Term); ok && e.S == SInt {
					st.Fact(Implies(isNilT(e), nonNil(p)))
				}
			}
		}
	}
	st.Emit("CallFuncValue", c.Args, rs, ex.pos(c.Pos))
	return one(st, res)
}

// ---------------------------------------------------------------------------
// builtins

func (ex *Executor) builtin(st *State, fr *frame, b *ssa.Builtin, args []Value, c *ssa.CallCommon, pos token.Pos) []callResult {
	switch b.Name() {
	case "len":
		return one(st, ex.lenOf(st, args[0]))
	case "cap":
		return one(st, ex.lenOf(st, args[0]))
	case "append":
		return one(st, ex.appendOp(st, args[0], args[1], c.Args[0].Type(), pos))
	case "copy":
		if dst, ok := args[0].(*BufV); ok {
			if src := ex.bytesTerm(st, args[1]); src != nil {
				dl := Sub(dst.Hi, dst.Lo)
				n := Ite(Le(StrLen(src), dl), StrLen(src), dl)
				data := src
				if Le(StrLen(src), dl) != TTrue {
					data = StrSub(src, IntLit(0), n)
				}
				ex.bufWrite(st, dst, IntLit(0), data)
				return one(st, n)
			}
		}
		st.Note("builtin copy")
		return one(st, ex.Fresh("copied", SInt))
	case "delete":
		md, cell := ex.mapData(st, args[0])
		if md != nil {
			st.Cells[cell] = &MapData{Base: md.Base, T: md.T, Upd: append(append([]MapEntry(nil), md.Upd...), MapEntry{K: args[1], Del: true})}
		} else {
			st.Emit("MapWrite", []Value{args[0], args[1]}, nil, ex.pos(pos))
		}
		return one(st, nil)
	case "print", "println":
		return one(st, nil)
	case "min", "max":
		if len(args) == 2 {
			a, aok := args[0].(*Term)
			bb, bok := args[1].(*Term)
			if aok && bok && a.S == SInt {
				if b.Name() == "min" {
					return one(st, Ite(Le(a, bb), a, bb))
				}
				return one(st, Ite(Ge(a, bb), a, bb))
			}
		}
	case "recover":
		return one(st, IntLit(0))
	case "ssa:wrapnilchk":
		return one(st, args[0])
	}
	st.Note("builtin %s", b.Name())
	return one(st, ex.havocResults(st, c.Signature(), b.Name()))
}

func (ex *Executor) lenOf(st *State, v Value) *Term {
	switch x := v.(type) {
	case *Term:
		if x.S == SStr {
			return StrLen(x)
		}
		if x.S == SInt {
			// opaque slice/map reference
			ln := App("slen", SInt, x)
			st.Fact(Ge(ln, IntLit(0)))
			st.Fact(Implies(Eq(x, IntLit(0)), Eq(ln, IntLit(0))))
			return ln
		}
	case *BytesV:
		return StrLen(x.T)
	case *BufV:
		return Sub(x.Hi, x.Lo)
	case *SliceV:
		return IntLit(int64(x.Hi - x.Lo))
	case *SymSliceV:
		return x.Len
	case *MapV:
		md, _ := ex.mapData(st, x)
		if md != nil && md.Base == nil {
			return mapLen(ex, st, md)
		}
		if md != nil && len(md.Upd) == 0 {
			ln := App("slen", SInt, md.Base)
			st.Fact(Ge(ln, IntLit(0)))
			return ln
		}
	case *ArrayV:
		return IntLit(int64(len(x.E)))
	}
	st.Note("len of %s", showValue(v))
	n := ex.Fresh("len", SInt)
	st.Fact(Ge(n, IntLit(0)))
	return n
}

func (ex *Executor) appendOp(st *State, a, b Value, t types.Type, pos token.Pos) Value {
	// []byte appends
	if isByteSlice(t) {
		at := ex.bytesTerm(st, a)
		bt := ex.bytesTerm(st, b)
		if at != nil && bt != nil {
			return &BytesV{T: StrCat(at, bt)}
		}
	}
	as, aok := a.(*SliceV)
	bs, bok := b.(*SliceV)
	if aok && bok {
		// concrete append: always a fresh backing array (aliasing of spare
		// capacity is not modelled)
		var elems []Value
		if !as.Nil {
			if av, ok := st.Cells[as.Cell].(*ArrayV); ok {
				elems = append(elems, av.E[as.Lo:as.Hi]...)
			}
		}
		if !bs.Nil {
			if av, ok := st.Cells[bs.Cell].(*ArrayV); ok {
				elems = append(elems, av.E[bs.Lo:bs.Hi]...)
			}
		}
		cell := ex.newCell(st, &ArrayV{E: elems})
		return &SliceV{Cell: cell, Lo: 0, Hi: len(elems)}
	}
	// symbolic
	var sa, sb *SymSliceV
	switch x := a.(type) {
	case *SymSliceV:
		sa = x
	case *SliceV:
		sa = ex.toSymSlice(st, x, t)
	}
	switch x := b.(type) {
	case *SymSliceV:
		sb = x
	case *SliceV:
		sb = ex.toSymSlice(st, x, t)
	}
	if sa != nil && sb != nil {
		// concatenation: if b has concrete length, use stores
		if n, ok := sb.Len.IntVal(); ok && n <= 16 {
			arr := ex.symArr(st, sa)
			sbArr := ex.symArr(st, sb)
			for i := int64(0); i < n; i++ {
				arr = Store(arr, Add(sa.Len, IntLit(i)), Select(sbArr, IntLit(i)))
			}
			return ex.newSymSlice(st, arr, Add(sa.Len, sb.Len), sa.ElemT)
		}
		saArr, sbArr := ex.symArr(st, sa), ex.symArr(st, sb)
		es := elemSort(saArr.S)
		arr := App("concat!"+es, saArr.S, saArr, sa.Len, sbArr)
		// concat(a, n, b)[i] = i < n ? a[i] : b[i-n]
		qi := &Term{Op: "qi", S: SInt}
		body := Eq(&Term{Op: "select", Args: []*Term{arr, qi}, S: es}, Ite(Lt(qi, sa.Len), &Term{Op: "select", Args: []*Term{saArr, qi}, S: es}, &Term{Op: "select", Args: []*Term{sbArr, Sub(qi, sa.Len)}, S: es}))
		q := &Term{Op: "forall", S: SBool}
		q.str = "(forall ((qi Int)) " + body.String() + ")"
		q.Args = []*Term{body}
		st.Fact(q)
		return ex.newSymSlice(st, arr, Add(sa.Len, sb.Len), sa.ElemT)
	}
	if at, ok := a.(*Term); ok && at.S == SInt {
		// append to an opaque slice of composites (e.g. handler lists)
		res := ex.Fresh("appended", SInt)
		st.Emit("AppendOpaque", []Value{at, b}, []Value{res}, ex.pos(pos))
		return res
	}
	st.Note("append %s, %s", showValue(a), showValue(b))
	return ex.havoc(st, t, "append")
}

func (ex *Executor) bytesTerm(st *State, v Value) *Term {
	switch x := v.(type) {
	case *BytesV:
		return x.T
	case *BufV:
		return ex.bufContent(st, x)
	case *Term:
		if x.S == SStr {
			return x
		}
	case *SliceV:
		if x.Nil || x.Lo == x.Hi {
			return StrLit("")
		}
		// concrete slice of byte terms
		if av, ok := st.Cells[x.Cell].(*ArrayV); ok {
			var parts []*Term
			for _, e := range av.E[x.Lo:x.Hi] {
				t, ok := e.(*Term)
				if !ok {
					return nil
				}
				if n, ok := t.IntVal(); ok && n >= 0 && n < 256 {
					parts = append(parts, StrLit(string([]byte{byte(n)})))
				} else {
					parts = append(parts, Builtin("str.from_code", SStr, t))
				}
			}
			return StrCat(parts...)
		}
	}
	return nil
}

// ---------------------------------------------------------------------------
// generic models selected by shape rather than by name

// userField returns the record field and whether m is a getter, if the method
// belongs to a user-record interface (an interface that has PutPID).
func userField(m *types.Func) (field string, get bool, ok bool) {
	recv := m.Type().(*types.Signature).Recv()
	if recv == nil {
		return "", false, false
	}
	it, isIface := recv.Type().Underlying().(*types.Interface)
	if !isIface {
		return "", false, false
	}
	_ = it
	n := m.Name()
	switch {
	case strings.HasPrefix(n, "Get"):
		return n[3:], true, true
	case strings.HasPrefix(n, "Put"):
		return n[3:], false, true
	}
	return "", false, false
}

func isUserIface(t types.Type) bool {
	it, ok := t.Underlying().(*types.Interface)
	if !ok {
		return false
	}
	ms := types.NewMethodSet(t)
	_ = it
	for i := 0; i < ms.Len(); i++ {
		if ms.At(i).Obj().Name() == "PutPID" {
			return true
		}
	}
	return false
}

func isValuerIface(t types.Type) bool {
	n, ok := t.(*types.Named)
	if !ok {
		return false
	}
	if _, ok := t.Underlying().(*types.Interface); !ok {
		return false
	}
	return strings.HasSuffix(n.Obj().Name(), "Valuer") || n.Obj().Name() == "Validator"
}

func (ex *Executor) userHeapGet(st *State, heap map[string]*Term, field, sort string) *Term {
	if a, ok := heap[field]; ok {
		return a
	}
	return Const("uh0!"+field, SArr(SInt, sort))
}

func fieldSort(t types.Type) (string, bool) {
	if isTime(t) {
		return SInt, true
	}
	if s, ok := scalarSort(t); ok {
		return s, true
	}
	return "", false
}

func (ex *Executor) genericInvoke(st *State, c *callCtx, m *types.Func) []callResult {
	recvT := c.Fr.fn.Prog.MethodSets.MethodSet(m.Type().(*types.Signature).Recv().Type())
	_ = recvT
	rt := m.Type().(*types.Signature).Recv().Type()
	recv, _ := c.Recv.(*Term)
	if recv == nil {
		recv = ex.asTerm(st, c.Recv)
	}
	if isUserIface(rt) {
		field, get, ok := userField(m)
		if ok {
			if get && c.Sig.Results().Len() == 1 && len(c.Args) == 0 {
				ft := c.Sig.Results().At(0).Type()
				if s, ok := fieldSort(ft); ok {
					arr := ex.userHeapGet(st, st.UHeap, field, s)
					v := Select(arr, recv)
					ex.UsedEnv["user-record accessors"] = true
					if isTime(ft) {
						return one(st, &TimeV{T: v})
					}
					if sl, isSl := ft.Underlying().(*types.Slice); isSl {
						if es, ok := scalarSort(sl.Elem()); ok {
							return one(st, ex.symSliceOfRef(st, v, sl.Elem(), es))
						}
					}
					return one(st, v)
				}
			}
			if !get && len(c.Args) == 1 {
				ft := c.Sig.Params().At(0).Type()
				if s, ok := fieldSort(ft); ok {
					arr := ex.userHeapGet(st, st.UHeap, field, s)
					var vt *Term
					switch a := c.Args[0].(type) {
					case *TimeV:
						vt = a.T
					default:
						vt = ex.asTerm(st, a)
					}
					if vt.S == s {
						st.UHeap[field] = Store(arr, recv, vt)
						ex.UsedEnv["user-record accessors"] = true
						return one(st, nil)
					}
				}
			}
		}
	}
	if isValuerIface(rt) && strings.HasPrefix(m.Name(), "Get") && len(c.Args) == 0 && c.Sig.Results().Len() == 1 {
		ft := c.Sig.Results().At(0).Type()
		if s, ok := scalarSort(ft); ok {
			ex.UsedEnv["request-values accessors"] = true
			v := App("val!"+m.Name(), s, recv)
			if mt, isMap := ft.Underlying().(*types.Map); isMap {
				_ = mt
			}
			return one(st, v)
		}
	}
	return nil
}

func (ex *Executor) genericStatic(st *State, c *callCtx, fn *ssa.Function) []callResult {
	return nil
}

func fmtPos(p string) string { return fmt.Sprint(p) }

// defaultImpl: interface components verified together with their shipped
// default implementation (assumption: the configuration uses the default).
var defaultImpl = map[string]string{
	"(" + abPkg + ".OneTimeTokenGenerator).GenerateToken": ":(*Sha512TokenGenerator).GenerateToken",
	"(" + abPkg + ".OneTimeTokenGenerator).ParseToken":    ":(*Sha512TokenGenerator).ParseToken",
	"(" + abPkg + ".OneTimeTokenGenerator).TokenSize":     ":(*Sha512TokenGenerator).TokenSize",
}

// mergePure joins the outcomes of an inlined call that had no side effects
// (no events, no writes) into one outcome whose result is an ite over the
// outcomes' branch conditions. This keeps plumbing helpers (loggers,
// localisation, accessors) from multiplying paths.
func (ex *Executor) mergePure(base *State, rs []callResult) []callResult {
	var normal []callResult
	var rest []callResult
	for _, r := range rs {
		if r.Panic {
			rest = append(rest, r)
		} else {
			normal = append(normal, r)
		}
	}
	if len(normal) < 2 {
		return rs
	}
	for _, r := range normal {
		s := r.St
		if len(s.Trace) != len(base.Trace) || s.Bounded != base.Bounded || s.NowSeq != base.NowSeq || len(s.Overlay) != len(base.Overlay) {
			return rs
		}
		if len(s.PC) < len(base.PC) {
			return rs
		}
		for k, v := range base.Cells {
			if nv, ok := s.Cells[k]; !ok || nv != v {
				return rs
			}
		}
		for k, v := range s.UHeap {
			if base.UHeap[k] != v {
				return rs
			}
		}
		if !mergeable(r.Ret) {
			return rs
		}
	}
	// merge
	m := normal[len(normal)-1].St.Clone()
	m.PC = append([]*Term(nil), base.PC...)
	var conds []*Term
	for _, r := range normal {
		conds = append(conds, And(r.St.PC[len(base.PC):]...))
	}
	ret := normal[len(normal)-1].Ret
	for i := len(normal) - 2; i >= 0; i-- {
		nr, ok := ex.mergeValues(m, conds[i], normal[i].Ret, ret)
		if !ok {
			return rs
		}
		ret = nr
	}
	m.Assume(Or(conds...))
	seen := map[string]bool{}
	m.Facts = nil
	m.Notes = nil
	for _, r := range normal {
		for _, f := range r.St.Facts {
			if !seen[f.String()] {
				seen[f.String()] = true
				m.Facts = append(m.Facts, f)
			}
		}
		for _, n := range r.St.Notes {
			m.Note("%s", n)
		}
		// cells allocated inside the callee (unreachable afterwards except through ret)
		for k, v := range r.St.Cells {
			if _, ok := m.Cells[k]; !ok {
				m.Cells[k] = v
			}
		}
	}
	return append(rest, callResult{St: m, Ret: ret})
}

func mergeable(v Value) bool {
	switch x := v.(type) {
	case nil:
		return true
	case *Term, *TimeV, *BytesV:
		return true
	case *StructV:
		for _, f := range x.F {
			if !mergeable(f) {
				return false
			}
		}
		return true
	case *TupleV:
		for _, f := range x.V {
			if !mergeable(f) {
				return false
			}
		}
		return true
	case *SymSliceV:
		return true
	}
	return false
}

func (ex *Executor) mergeValues(st *State, c *Term, a, b Value) (Value, bool) {
	switch x := a.(type) {
	case nil:
		return nil, b == nil
	case *Term:
		if y, ok := b.(*Term); ok && x.S == y.S {
			return Ite(c, x, y), true
		}
	case *TimeV:
		if y, ok := b.(*TimeV); ok {
			return &TimeV{T: Ite(c, x.T, y.T)}, true
		}
	case *BytesV:
		if y, ok := b.(*BytesV); ok {
			return &BytesV{T: Ite(c, x.T, y.T)}, true
		}
	case *StructV:
		if y, ok := b.(*StructV); ok && len(x.F) == len(y.F) {
			n := &StructV{T: x.T}
			for i := range x.F {
				f, ok := ex.mergeValues(st, c, x.F[i], y.F[i])
				if !ok {
					return nil, false
				}
				n.F = append(n.F, f)
			}
			return n, true
		}
	case *TupleV:
		if y, ok := b.(*TupleV); ok && len(x.V) == len(y.V) {
			n := &TupleV{}
			for i := range x.V {
				f, ok := ex.mergeValues(st, c, x.V[i], y.V[i])
				if !ok {
					return nil, false
				}
				n.V = append(n.V, f)
			}
			return n, true
		}
	case *SymSliceV:
		if y, ok := b.(*SymSliceV); ok && x.Cell == 0 && y.Cell == 0 && x.Arr.S == y.Arr.S {
			n := &SymSliceV{Arr: Ite(c, x.Arr, y.Arr), Len: Ite(c, x.Len, y.Len), ElemT: x.ElemT}
			if x.Ref != nil && y.Ref != nil {
				n.Ref = Ite(c, x.Ref, y.Ref)
			}
			return n, true
		}
	}
	return nil, false
}
