package main

// Lemmas over contracts (DESIGN section 4): facts about the spec expressions
// that contract clauses use, proved once per run by the solvers. A lemma file
// /verif/lemmas/<prop>_<name>.smt2 names the clause it is about ("over") and a
// fragment that clause must contain ("contains"): when the contract is edited
// so that the fragment disappears the lemma no longer speaks about the code
// and the run fails with a machinery error instead of passing.

import (
	"os"
	"path/filepath"
	"sort"
	"strings"
)

func lemmaDir(verifDir string) string {
	if exe, e := os.Executable(); e == nil {
		if d := filepath.Join(filepath.Dir(filepath.Dir(exe)), "lemmas"); dirExists(d) {
			return d
		}
	}
	if d := filepath.Join(verifDir, "lemmas"); dirExists(d) {
		return d
	}
	return "/verif/lemmas"
}

func (v *Verifier) addLemmas(verifDir string) {
	files, _ := filepath.Glob(filepath.Join(lemmaDir(verifDir), v.Prop+"_*.smt2"))
	sort.Strings(files)
	for _, f := range files {
		data, err := os.ReadFile(f)
		if err != nil {
			v.Errors = append(v.Errors, "lemma "+f+": "+err.Error())
			continue
		}
		h := map[string]string{}
		for _, l := range strings.Split(string(data), "\n") {
			if !strings.HasPrefix(l, ";") {
				continue
			}
			l = strings.TrimSpace(strings.TrimPrefix(l, ";"))
			if i := strings.Index(l, ":"); i > 0 {
				h[strings.TrimSpace(l[:i])] = strings.TrimSpace(l[i+1:])
			}
		}
		name := "lemma/" + h["lemma"]
		// the link to the contract
		if over := h["over"]; over != "" {
			i := strings.LastIndex(over, "/")
			key, label := over[:i], over[i+1:]
			fc := v.CS.Funcs[key]
			found := false
			if fc != nil {
				for _, c := range fc.Clauses {
					if c.Label == label && strings.Contains(strings.Join(strings.Fields(c.Text), " "), h["contains"]) {
						found = true
					}
				}
			}
			if !found {
				v.Errors = append(v.Errors, name+": the clause "+over+" no longer contains `"+h["contains"]+"`: the lemma does not speak about the contract any more")
				continue
			}
		}
		if kfs := v.knownFor(name); len(kfs) > 0 {
			// a lemma that is known not to hold: re-checked as a region (the
			// counterexample must still exist), reported as KNOWN-FINDING
			v.Regions = append(v.Regions, &Obligation{Name: name, Func: h["over"], Label: h["lemma"], Kind: "known_region", Goal: TTrue, WantSat: true, RawSMT: string(data), Notes: []string{kfs[0].What}})
			continue
		}
		ob := &Obligation{Name: name, Func: h["over"], Label: h["lemma"], Kind: "lemma", Goal: TFalse, RawSMT: string(data),
			Notes: []string{h["statement"], "assumes: " + h["assumes"], "file: " + f}}
		ob.Trace = ob.Notes
		v.UsedEnv["lemma "+h["lemma"]+" assumes: "+h["assumes"]] = true
		v.Obls = append(v.Obls, ob)
	}
}
