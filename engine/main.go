package main

import (
	"flag"
	"fmt"
	"os"
	"strings"
)

func main() {
	if len(os.Args) < 2 {
		fmt.Fprintln(os.Stderr, "usage: gvc <trace|check|list> ...")
		os.Exit(2)
	}
	switch os.Args[1] {
	case "trace":
		cmdTrace(os.Args[2:])
	case "list":
		cmdList(os.Args[2:])
	case "check":
		cmdCheck(os.Args[2:])
	case "replay":
		cmdReplay(os.Args[2:])
	default:
		fmt.Fprintln(os.Stderr, "unknown command")
		os.Exit(2)
	}
}

func cmdList(args []string) {
	fs := flag.NewFlagSet("list", flag.ExitOnError)
	repo := fs.String("repo", "/repo", "")
	fs.Parse(args)
	p, err := LoadProgram(*repo, "verif")
	if err != nil {
		fmt.Fprintln(os.Stderr, err)
		os.Exit(2)
	}
	for _, k := range p.sortedFuncKeys() {
		fn := p.Funcs[k]
		file := ""
		if fn.Pos().IsValid() {
			file = p.Fset.Position(fn.Pos()).Filename
			if i := strings.LastIndex(file, "/repo/"); i >= 0 {
				file = file[i+6:]
			}
		}
		fmt.Printf("%s\t%s\n", k, file)
	}
}

func newExecutor(p *Program) *Executor {
	return &Executor{Prog: p, MaxPaths: 20000, MaxDepth: 8, Unroll: 2, UsedEnv: map[string]bool{}, Inlined: map[string]bool{}, Summaries: map[string]bool{}, fset: p.Fset}
}

func cmdTrace(args []string) {
	fs := flag.NewFlagSet("trace", flag.ExitOnError)
	repo := fs.String("repo", "/repo", "")
	verbose := fs.Bool("v", false, "")
	fs.Parse(args)
	p, err := LoadProgram(*repo, "verif")
	if err != nil {
		fmt.Fprintln(os.Stderr, err)
		os.Exit(2)
	}
	for _, key := range fs.Args() {
		fn := p.Funcs[key]
		if fn == nil {
			fmt.Println("no such function:", key)
			continue
		}
		ex := newExecutor(p)
		ex.Root = fn
		ex.TypeHolds = defaultTypeHolds
		ex.AssumeNonNil = defaultAssumeNonNil
		st := NewState()
		fargs, bind, _ := ex.rootArgs(st, fn)
		outs := ex.Explore(fn, st, fargs, bind, 0)
		fmt.Printf("== %s: %d paths (aborted=%q)\n", key, len(outs), ex.Aborted)
		for i, o := range outs {
			fmt.Printf("-- path %d panic=%v ret=%s bounded=%v\n", i, o.Panic, showValue(o.Ret), o.St.Bounded)
			for _, e := range o.St.Trace {
				fmt.Printf("     %s\n", e)
			}
			if *verbose {
				for _, c := range o.St.PC {
					fmt.Printf("     pc: %s\n", c)
				}
			}
			for _, n := range o.St.Notes {
				fmt.Printf("     note: %s\n", n)
			}
		}
		var used []string
		for k := range ex.UsedEnv {
			used = append(used, k)
		}
		fmt.Println("env used:", strings.Join(used, "; "))
	}
}
