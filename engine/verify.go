package main

import (
	"encoding/json"
	"fmt"
	"os"
	"sort"
	"strings"

	"golang.org/x/tools/go/ssa"
)

type KnownFinding struct {
	Status     string `json:"status"` // known | fixed
	Property   string `json:"property"`
	Obligation string `json:"obligation"`
	Except     string `json:"except,omitempty"`
	What       string `json:"what"`
	Witness    string `json:"witness,omitempty"`
	Commit     string `json:"commit,omitempty"`
	exceptExpr *Node
}

func loadKnown(path string) ([]*KnownFinding, error) {
	data, err := os.ReadFile(path)
	if err != nil {
		if os.IsNotExist(err) {
			return nil, nil
		}
		return nil, err
	}
	var out []*KnownFinding
	for i, l := range strings.Split(string(data), "\n") {
		l = strings.TrimSpace(l)
		if l == "" || strings.HasPrefix(l, "#") || strings.HasPrefix(l, "fixed:") {
			continue
		}
		k := &KnownFinding{}
		if err := json.Unmarshal([]byte(l), k); err != nil {
			return nil, fmt.Errorf("%s:%d: %v", path, i+1, err)
		}
		if k.Except != "" {
			n, err := parseExpr(k.Except)
			if err != nil {
				return nil, fmt.Errorf("%s:%d: except: %v", path, i+1, err)
			}
			k.exceptExpr = n
		}
		out = append(out, k)
	}
	return out, nil
}

type FuncReport struct {
	Key         string
	Paths       int
	Panics      int
	Bounded     int
	Notes       []string
	Aborted     string
	UsedEnv     []string
	Inlined     []string
	Clauses     []string
	EvalError   string
	Unexercised []string // each-forms that matched no event on any path
}

type eachKey struct {
	c *Clause
	n *Node
}

type Verifier struct {
	Prog          *Program
	CS            *ContractSet
	Prop          string
	Tier          string
	Known         []*KnownFinding
	Obls          []*Obligation
	Regions       []*Obligation // known-finding region re-checks
	Reports       []*FuncReport
	Errors        []string // machinery errors
	Warnings      []string // stale proof hints and the like: reported, never fatal
	UsedEnv       map[string]bool
	UsedSummaries map[string]bool
	coveredPred   func(key string) bool
	sweepDefault  func(fn *ssa.Function, callers map[*ssa.Function][]*ssa.Function) bool
	Verified      map[string]bool
	AllClauses    map[string]bool // functions verified with every clause (summary callees)
}

func obligationName(fc *FuncContract, label string) string {
	return strings.Replace(fc.Key, ":", ".", 1) + "/" + label
}

func (v *Verifier) knownFor(name string) []*KnownFinding {
	var out []*KnownFinding
	for _, k := range v.Known {
		// (matched by obligation: in the thorough tier a clause is also checked under
		// the other properties its function is listed for)
		if k.Status == "known" && k.Obligation == name && (k.Property == v.Prop || allClausesMode) {
			out = append(out, k)
		}
	}
	return out
}

func (v *Verifier) newEnv(ex *Executor, fn *ssa.Function, fc *FuncContract, st *State, params map[string]cval) *CEnv {
	env := &CEnv{ex: ex, prog: v.Prog, cs: v.CS, fn: fn, fc: fc, st: st, vars: map[string]cval{}, ref: -1}
	for k, p := range params {
		env.vars[k] = p
	}
	return env
}

func (v *Verifier) VerifyFunc(fc *FuncContract) {
	rep := &FuncReport{Key: fc.Key}
	v.Reports = append(v.Reports, rep)
	fn := v.Prog.Funcs[fc.Key]
	if fn == nil {
		// a method whose receiver changed between T and *T is still that method
		fn = v.Prog.Funcs[altRecvKey(fc.Key)]
	}
	if fc.Options["trusted"] != "" && fn != nil {
		rep.Notes = append(rep.Notes, "TRUSTED (body not verified): "+fc.Options["trusted"])
		v.UsedEnv["contract of "+fc.Key+" ASSUMED, body not verified: "+fc.Options["trusted"]] = true
		if fc.Options["bounded"] != "" {
			v.addBoundedStandIn(fc)
		}
		return
	}
	if fc.Options["bounded"] != "" && fn != nil {
		// a verified function may still name a harness: for what its contract cannot state
		// (e.g. that a loop under invariants visits every element), exercised on every run
		v.addBoundedStandIn(fc)
	}
	if fn == nil {
		// the function under contract no longer exists: every clause fails
		for _, c := range fc.Clauses {
			if c.Kind == "ensures" && c.appliesTo(v.Prop, fc) {
				v.Obls = append(v.Obls, &Obligation{Name: obligationName(fc, c.Label), Func: fc.Key, Label: c.Label, Kind: "ensures", Hyps: nil, Goal: TFalse,
					Notes: []string{"function under contract not found in the current tree: " + fc.Key}})
			}
		}
		return
	}
	ex := newExecutor(v.Prog)
	ex.Root = fn
	ex.TypeHolds = defaultTypeHolds
	ex.AssumeNonNil = defaultAssumeNonNil
	ex.SummaryHook = v.summaryHook(fc)
	ex.GhostHook = v.ghostHook()
	v.Verified[fc.Key] = true
	if fc.Options["unroll"] != "" {
		fmt.Sscanf(fc.Options["unroll"], "%d", &ex.Unroll)
	}
	st := NewState()
	fargs, bind, params := ex.rootArgs(st, fn)
	// loop invariants
	ex.LoopInv = v.loopContracts(fn, fc)
	ex.loopEnv = func(st *State) *CEnv { return v.newEnv(ex, fn, fc, st, params) }
	// requires
	entryEnv := v.newEnv(ex, fn, fc, st, params)
	entryEnv.scratch = st
	for _, c := range fc.Clauses {
		if c.Kind != "requires" {
			continue
		}
		t, err := entryEnv.EvalBool(c.Expr)
		if err != nil {
			v.Errors = append(v.Errors, fmt.Sprintf("%s requires (line %d): %v", fc.Key, c.Line, err))
			rep.EvalError = err.Error()
			return
		}
		st.Assume(t)
	}
	reqHyps := append(append([]*Term(nil), st.PC...), st.Facts...)
	v.Obls = append(v.Obls, &Obligation{Name: obligationName(fc, "requires_sat"), Func: fc.Key, Label: "requires_sat", Kind: "requires_sat", Hyps: reqHyps, Goal: TTrue, WantSat: true})

	outs := ex.Explore(fn, st, fargs, bind, 0)
	for _, o := range outs {
		ex.GhostHook(ex, fn, fargs, o.St, 0)
	}
	rep.Paths = len(outs)
	rep.Aborted = ex.Aborted
	for k := range ex.UsedEnv {
		rep.UsedEnv = append(rep.UsedEnv, k)
		v.UsedEnv[k] = true
	}
	sort.Strings(rep.UsedEnv)
	for k := range ex.Inlined {
		rep.Inlined = append(rep.Inlined, k)
	}
	sort.Strings(rep.Inlined)
	noteSet := map[string]bool{}
	if ex.Aborted != "" {
		v.Obls = append(v.Obls, &Obligation{Name: obligationName(fc, "explored"), Func: fc.Key, Label: "explored", Kind: "ensures", Goal: TFalse, Notes: []string{ex.Aborted}, Status: "undecided"})
	}
	unevaluable := map[string]bool{}
	for _, le := range ex.LoopErrors {
		v.Errors = append(v.Errors, fc.Key+" "+le)
		name := obligationName(fc, strings.SplitN(le, ":", 2)[0])
		if !unevaluable[name] {
			unevaluable[name] = true
			v.Obls = append(v.Obls, &Obligation{Name: name, Func: fc.Key, Label: "loop_invariant", Kind: "ensures", Goal: TFalse, Status: "undecided",
				Notes: []string{"the invariant does not evaluate against this code: " + le}, Trace: []string{"the invariant does not evaluate against this code: " + le}})
		}
	}
	// loops without an invariant: the executions beyond the unrolling bound were NOT
	// explored. One "bounded" pseudo-obligation per such loop keeps that visible
	// (counted under bounded, never as proved).
	var cutPos []string
	for p := range ex.LoopCuts {
		cutPos = append(cutPos, p)
	}
	sort.Strings(cutPos)
	for _, p := range cutPos {
		rep.Bounded += ex.LoopCuts[p]
		v.Obls = append(v.Obls, &Obligation{Name: obligationName(fc, "loop_without_invariant@"+p), Func: fc.Key, Label: "loop_without_invariant", Kind: "bounded", Goal: TTrue, Bounded: true,
			Notes: []string{fmt.Sprintf("loop at %s has no invariant: executions with more than %d iterations not explored (%d continuations dropped)", p, ex.Unroll, ex.LoopCuts[p])}})
	}
	// loop obligations produced during exploration
	for _, lo := range ex.LoopObls {
		hyps := append(append(append([]*Term(nil), lo.St.PC...), lo.St.Facts...), ex.GlobalFacts...)
		v.Obls = append(v.Obls, &Obligation{Name: obligationName(fc, lo.Name), Func: fc.Key, Label: lo.Name, Kind: lo.Kind, Hyps: hyps, Goal: lo.Goal, Trace: traceStrings(lo.St)})
	}
	if v.Tier == "thorough" {
		// path feasibility: at least one returning path of the function must be
		// satisfiable together with the environment facts (otherwise every clause
		// would hold vacuously); up to 16 paths are sampled
		step := len(outs)/16 + 1
		for i := 0; i < len(outs); i += step {
			o := outs[i]
			if o.Panic {
				continue
			}
			hyps := append(append(append([]*Term(nil), o.St.PC...), o.St.Facts...), ex.GlobalFacts...)
			v.Obls = append(v.Obls, &Obligation{Name: obligationName(fc, "feasible_path"), Func: fc.Key, Label: "feasible_path", Kind: "cover_path", Path: i, Hyps: hyps, Goal: TTrue, WantSat: true})
		}
	}
	eachStat := map[eachKey]bool{}
	defer func() {
		// vacuity: an each-form that matches no event on any explored path constrains nothing
		var ks []eachKey
		if os.Getenv("GVC_DEBUG_EACH") != "" {
			fmt.Fprintf(os.Stderr, "each-forms of %s: %d\n", fc.Key, len(eachStat))
		}
		for k, ok := range eachStat {
			if !ok {
				ks = append(ks, k)
			}
		}
		sort.Slice(ks, func(i, j int) bool { return ks[i].c.Label+ks[i].n.S < ks[j].c.Label+ks[j].n.S })
		for _, k := range ks {
			rep.Unexercised = append(rep.Unexercised, k.c.Label+": each "+k.n.S)
			if k.c.Default || ex.Aborted != "" {
				continue // default contracts are prohibitions: nothing has to happen
			}
			v.Obls = append(v.Obls, &Obligation{Name: obligationName(fc, k.c.Label) + "/exercised", Func: fc.Key, Label: k.c.Label, Kind: "vacuity", Goal: TFalse,
				Notes: []string{"the clause quantifies over " + k.n.S + " events, but no explored path of the function performs one: the clause constrains nothing (the contract was written for code that did)"}})
		}
	}()
	for i, o := range outs {
		if o.Panic {
			rep.Panics++
		}
		if o.St.Bounded {
			rep.Bounded++
		}
		for _, n := range o.St.Notes {
			noteSet[n] = true
		}
		for _, c := range fc.Clauses {
			if c.Kind != "ensures" || !(c.appliesTo(v.Prop, fc) || v.AllClauses[fc.Key]) {
				continue
			}
			name := obligationName(fc, c.Label)
			env := v.newEnv(ex, fn, fc, o.St, params)
			env.ret, env.panicky = o.Ret, o.Panic
			env.scratch = o.St.Clone()
			env.scratch.Trace = o.St.Trace
			if err := v.bindLets(env, fc); err != nil {
				if strings.Contains(err.Error(), "result on a panicking path") {
					continue
				}
				v.Errors = append(v.Errors, fmt.Sprintf("%s let: %v", fc.Key, err))
				rep.EvalError = err.Error()
				continue
			}
			env.exercised, env.seenEach = map[*Node]bool{}, map[*Node]bool{}
			goal, err := env.EvalBool(c.Expr)
			for n := range env.seenEach {
				k := eachKey{c, n}
				if _, has := eachStat[k]; !has {
					eachStat[k] = false
				}
				if env.exercised[n] {
					eachStat[k] = true
				}
			}
			if err != nil {
				if strings.Contains(err.Error(), "result on a panicking path") {
					continue
				}
				v.Errors = append(v.Errors, fmt.Sprintf("%s/%s (line %d): %v", fc.Key, c.Label, c.Line, err))
				rep.EvalError = err.Error()
				// an obligation that cannot even be stated against the current code is not
				// discharged: reported once per clause (no failing input can be given)
				if !unevaluable[name] {
					unevaluable[name] = true
					v.Obls = append(v.Obls, &Obligation{Name: name, Func: fc.Key, Label: c.Label, Kind: "ensures", Path: i, Goal: TFalse, Status: "undecided",
						Notes: []string{"the clause does not evaluate against this code: " + err.Error()}, Trace: []string{"the clause does not evaluate against this code: " + err.Error()}})
				}
				continue
			}
			hyps := append(append(append([]*Term(nil), o.St.PC...), env.scratch.Facts...), ex.GlobalFacts...)
			ob := &Obligation{Name: name, Func: fc.Key, Label: c.Label, Kind: "ensures", Path: i, Hyps: hyps, Goal: goal, Bounded: o.St.Bounded, Trace: traceStrings(o.St), PathSt: o.St, Fn: fn, RetVal: o.Ret, Panicked: o.Panic, NoConfirm: !c.taggedFor(v.Prop, fc)}
			for _, kf := range v.knownFor(name) {
				if kf.exceptExpr == nil {
					continue
				}
				ex2, err := env.EvalBool(kf.exceptExpr)
				if err != nil {
					v.Errors = append(v.Errors, fmt.Sprintf("known finding %s except: %v", name, err))
					continue
				}
				ob.Goal = Or(ex2, ob.Goal)
				if goal == TTrue || ex2 == TFalse {
					continue // nothing can fail inside the region on this path
				}
				// region re-check: is the finding still present on this path?
				v.Regions = append(v.Regions, &Obligation{Name: name, Func: fc.Key, Label: c.Label, Kind: "known_region", Path: i,
					Hyps: append(append([]*Term(nil), hyps...), ex2), Goal: Not(goal), WantSat: true, Notes: []string{kf.What}, Trace: ob.Trace})
			}
			v.Obls = append(v.Obls, ob)
		}
	}
	for n := range noteSet {
		rep.Notes = append(rep.Notes, n)
	}
	// blocks of the function itself that no explored path ever jumped into: dead by the
	// engine's own (concrete) knowledge, not by a solver's verdict - either unreachable
	// code or a sign that the engine believes something about the state it should not
	if ex.Aborted == "" && fn.Blocks != nil {
		for _, b := range fn.Blocks[1:] {
			if ex.Entered[b] || b.Comment == "recover" {
				continue
			}
			dead := true
			for _, p := range b.Preds {
				if p == fn.Blocks[0] || ex.Entered[p] {
					dead = false // reported at the frontier only
				}
			}
			if dead && len(b.Preds) > 0 {
				continue
			}
			if pos := firstPos(b); pos.IsValid() {
				rep.Notes = append(rep.Notes, "never explored: block "+b.Comment+" at "+ex.pos(pos))
			}
		}
	}
	sort.Strings(rep.Notes)
	for _, c := range fc.Clauses {
		if c.Kind == "ensures" && c.appliesTo(v.Prop, fc) {
			rep.Clauses = append(rep.Clauses, c.Label)
		}
	}
}

func (v *Verifier) bindLets(env *CEnv, fc *FuncContract) (err error) {
	defer func() {
		if r := recover(); r != nil {
			if ee, ok := r.(*evalError); ok {
				err = ee
				return
			}
			panic(r)
		}
	}()
	for _, l := range fc.Lets {
		env.vars[l.Label] = env.eval(l.Expr)
	}
	return nil
}

func traceStrings(st *State) []string {
	var out []string
	for _, e := range st.Trace {
		s := e.String()
		if len(s) > 400 {
			s = s[:400] + "..."
		}
		out = append(out, s)
	}
	return out
}

func (v *Verifier) loopContracts(fn *ssa.Function, fc *FuncContract) map[*ssa.BasicBlock]*LoopContract {
	byOrd := map[int][]*Clause{}
	for _, c := range fc.Clauses {
		if c.Kind == "invariant" {
			byOrd[c.Loop] = append(byOrd[c.Loop], c)
		}
	}
	if len(byOrd) == 0 {
		return nil
	}
	headers := loopHeaders(fn)
	out := map[*ssa.BasicBlock]*LoopContract{}
	for ord, cs := range byOrd {
		if ord < 1 || ord > len(headers) {
			// a stale proof hint: ignoring it cannot make anything unsound (the loops
			// that do exist are then unrolled and their paths labelled bounded)
			v.Warnings = append(v.Warnings, fmt.Sprintf("%s: invariant for loop#%d ignored, function has %d loops (contract out of date)", fc.Key, ord, len(headers)))
			continue
		}
		out[headers[ord-1]] = &LoopContract{Ordinal: ord, Header: headers[ord-1], Invs: cs}
	}
	return out
}

// loopHeaders returns loop header blocks ordered by source position.
func loopHeaders(fn *ssa.Function) []*ssa.BasicBlock {
	var hs []*ssa.BasicBlock
	for _, b := range fn.Blocks {
		if isLoopHeader(b) {
			hs = append(hs, b)
		}
	}
	sort.SliceStable(hs, func(i, j int) bool {
		pi, pj := loopPos(hs[i]), loopPos(hs[j])
		if pi != pj {
			return pi < pj
		}
		return hs[i].Index < hs[j].Index
	})
	return hs
}

func loopPos(b *ssa.BasicBlock) int {
	best := 0
	for _, ins := range b.Instrs {
		if p := ins.Pos(); p.IsValid() {
			if best == 0 || int(p) < best {
				best = int(p)
			}
		}
	}
	if best == 0 {
		for _, s := range b.Succs {
			for _, ins := range s.Instrs {
				if p := ins.Pos(); p.IsValid() {
					if best == 0 || int(p) < best {
						best = int(p)
					}
				}
			}
		}
	}
	return best
}

// altRecvKey maps pkg:(T).M to pkg:(*T).M and back.
func altRecvKey(key string) string {
	i := strings.Index(key, ":(")
	if i < 0 {
		return key
	}
	rest := key[i+2:]
	if strings.HasPrefix(rest, "*") {
		return key[:i+2] + rest[1:]
	}
	return key[:i+2] + "*" + rest
}
