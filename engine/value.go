package main

// Symbolic values and the per-path state of the symbolic executor.

import (
	"fmt"
	"go/types"
	"sort"
	"strings"

	"golang.org/x/tools/go/ssa"
)

type Value interface{}

// scalars are *Term. Sorts: Bool, Int, String. References (pointers,
// interfaces, funcs, maps, chans with unknown contents) are Int terms with
// nil == 0.

type StructV struct {
	T types.Type
	F []Value
}

type TupleV struct{ V []Value }

type PathElem struct {
	Field int // >=0: struct field
	Index int // if Field<0: concrete array index
}

// PtrV points into a cell of the local store.
type PtrV struct {
	Cell int
	Path []PathElem
}

// LocV is an address in opaque memory (reachable from a parameter or an
// environment result): a root reference, a field path and index terms.
type LocV struct {
	Base *Term
	Path string
	Idx  []*Term
	T    types.Type // pointee type
}

// IfaceV is an interface value whose dynamic type and value are known.
type IfaceV struct {
	Dyn types.Type
	V   Value
}

type ArrayV struct{ E []Value }

// SliceV is a slice over a concrete backing array kept in a cell.
type SliceV struct {
	Cell   int
	Lo, Hi int
	Nil    bool
}

// BytesV is an immutable byte string ([]byte / [N]byte / string contents).
type BytesV struct{ T *Term }

// BufV is a mutable byte buffer: the cell holds a *Term of sort String.
type BufV struct {
	Cell   int
	Lo, Hi *Term
}

// SymSliceV is an immutable symbolic slice of scalars.
type SymSliceV struct {
	Arr   *Term // (Array Int S); ignored when Cell != 0
	Cell  int   // mutable backing array: the cell holds the current array term
	Off   *Term // offset into the backing array (nil = 0), only with Cell
	Len   *Term
	Ref   *Term // identity if opaque, may be nil
	ElemT types.Type
}

type MapEntry struct {
	K   Value
	V   Value
	Del bool
}

type MapData struct {
	Base *Term // opaque base map reference or nil for a fresh map
	Upd  []MapEntry
	T    *types.Map
}

type MapV struct{ Cell int }

type ClosureV struct {
	Fn   *ssa.Function
	Bind []Value
}

type FuncV struct{ Fn *ssa.Function }

type BoundV struct {
	Fn   *ssa.Function
	Recv Value
}

type CtxKV struct {
	K Value
	V Value
}

// CtxV models context.Context as a base plus WithValue overrides.
type CtxV struct {
	Base *Term
	KV   []CtxKV
}

// ReqV models *http.Request: identity term plus (optionally) a replaced context.
type ReqV struct {
	Base *Term
	Ctx  *CtxV
}

// TimeV models time.Time as nanoseconds (mathematical integer).
type TimeV struct{ T *Term }

// RangeV is an iterator created by a Range instruction.
type RangeV struct {
	X    Value
	Pos  int
	Name string
}

// UnknownV marks a value the executor could not model.
type UnknownV struct{ Why string }

// ---------------------------------------------------------------------------

type Event struct {
	Kind string
	Args []Value
	Res  []Value
	Heap map[string]*Term // user-record heap snapshot at emission
	Pos  string           // source position (informational)
	InGo bool             // emitted inside a `go` statement body
}

func (e *Event) String() string {
	var b strings.Builder
	b.WriteString(e.Kind)
	b.WriteByte('(')
	for i, a := range e.Args {
		if i > 0 {
			b.WriteString(", ")
		}
		b.WriteString(showValue(a))
	}
	b.WriteByte(')')
	if len(e.Res) > 0 {
		b.WriteString(" -> (")
		for i, a := range e.Res {
			if i > 0 {
				b.WriteString(", ")
			}
			b.WriteString(showValue(a))
		}
		b.WriteByte(')')
	}
	return b.String()
}

func showValue(v Value) string {
	switch x := v.(type) {
	case nil:
		return "<nil>"
	case *Term:
		return x.String()
	case *StructV:
		var parts []string
		st, _ := x.T.Underlying().(*types.Struct)
		for i, f := range x.F {
			n := fmt.Sprint(i)
			if st != nil {
				n = st.Field(i).Name()
			}
			parts = append(parts, n+":"+showValue(f))
		}
		return "{" + strings.Join(parts, " ") + "}"
	case *TupleV:
		var parts []string
		for _, f := range x.V {
			parts = append(parts, showValue(f))
		}
		return "(" + strings.Join(parts, ", ") + ")"
	case *IfaceV:
		return "iface<" + types.TypeString(x.Dyn, shortQual) + ">(" + showValue(x.V) + ")"
	case *BytesV:
		return "bytes(" + x.T.String() + ")"
	case *TimeV:
		return "time(" + x.T.String() + ")"
	case *ReqV:
		if x.Ctx != nil {
			return "req(" + x.Base.String() + " ctx+" + fmt.Sprint(len(x.Ctx.KV)) + ")"
		}
		return "req(" + x.Base.String() + ")"
	case *CtxV:
		return "ctx(" + x.Base.String() + "+" + fmt.Sprint(len(x.KV)) + ")"
	case *SymSliceV:
		return "symslice(len=" + x.Len.String() + ")"
	case *ClosureV:
		return "closure(" + x.Fn.Name() + ")"
	case *FuncV:
		return "func(" + x.Fn.String() + ")"
	case *BoundV:
		return "bound(" + x.Fn.String() + ")"
	case *PtrV:
		return fmt.Sprintf("&cell%d%v", x.Cell, x.Path)
	case *LocV:
		return "&" + x.Path + "(" + x.Base.String() + ")"
	case *SliceV:
		return fmt.Sprintf("slice(cell%d[%d:%d])", x.Cell, x.Lo, x.Hi)
	case *MapV:
		return fmt.Sprintf("map(cell%d)", x.Cell)
	case *UnknownV:
		return "unknown(" + x.Why + ")"
	case *BufV:
		return fmt.Sprintf("buf(cell%d)", x.Cell)
	case *ArrayV:
		var parts []string
		for _, f := range x.E {
			parts = append(parts, showValue(f))
		}
		return "[" + strings.Join(parts, ", ") + "]"
	}
	return fmt.Sprintf("%T", v)
}

func shortQual(p *types.Package) string { return p.Name() }

// ---------------------------------------------------------------------------

type State struct {
	PC      []*Term
	Trace   []*Event
	Cells   map[int]Value
	Overlay map[string]Value // writes to opaque memory, keyed by address
	UHeap   map[string]*Term // user-record heap: field -> (Array Int S)
	Facts   []*Term          // instantiated axioms (always true in env model)
	Notes   []string         // unmodelled constructs met on this path
	Bounded bool             // a loop was cut by the unrolling bound
	NowSeq  int
	LastNow *Term
	InGo    int
	// ghost: result of the most recent events of some kinds (for convenience)
}

func NewState() *State {
	return &State{Cells: map[int]Value{}, Overlay: map[string]Value{}, UHeap: map[string]*Term{}}
}

func (s *State) Clone() *State {
	n := &State{
		PC:      append([]*Term(nil), s.PC...),
		Trace:   append([]*Event(nil), s.Trace...),
		Cells:   make(map[int]Value, len(s.Cells)),
		Overlay: make(map[string]Value, len(s.Overlay)),
		UHeap:   make(map[string]*Term, len(s.UHeap)),
		Facts:   append([]*Term(nil), s.Facts...),
		Notes:   append([]string(nil), s.Notes...),
		Bounded: s.Bounded,
		NowSeq:  s.NowSeq,
		LastNow: s.LastNow,
		InGo:    s.InGo,
	}
	for k, v := range s.Cells {
		n.Cells[k] = v
	}
	for k, v := range s.Overlay {
		n.Overlay[k] = v
	}
	for k, v := range s.UHeap {
		n.UHeap[k] = v
	}
	return n
}

func (s *State) Assume(t *Term) {
	if t == TTrue {
		return
	}
	s.PC = append(s.PC, t)
}

func (s *State) Fact(t *Term) {
	if t == TTrue {
		return
	}
	if hasFreeBound(t, nil) {
		return // generated while evaluating under a binder: not a closed fact
	}
	s.Facts = append(s.Facts, t)
}

func (s *State) Infeasible() bool {
	for _, t := range s.PC {
		if t == TFalse {
			return true
		}
	}
	// cheap syntactic contradiction test
	seen := map[string]bool{}
	for _, t := range s.PC {
		seen[t.String()] = true
	}
	for _, t := range s.PC {
		if seen[Not(t).String()] {
			return true
		}
	}
	return false
}

func (s *State) Note(format string, a ...interface{}) {
	m := fmt.Sprintf(format, a...)
	for _, n := range s.Notes {
		if n == m {
			return
		}
	}
	s.Notes = append(s.Notes, m)
}

func (s *State) HeapSnap() map[string]*Term {
	m := make(map[string]*Term, len(s.UHeap))
	for k, v := range s.UHeap {
		m[k] = v
	}
	return m
}

func (s *State) Emit(kind string, args []Value, res []Value, pos string) *Event {
	e := &Event{Kind: kind, Args: args, Res: res, Heap: s.HeapSnap(), Pos: pos, InGo: s.InGo > 0}
	s.Trace = append(s.Trace, e)
	return e
}

func heapKeys(m map[string]*Term) []string {
	ks := make([]string, 0, len(m))
	for k := range m {
		ks = append(ks, k)
	}
	sort.Strings(ks)
	return ks
}

// hasFreeBound reports whether t mentions a quantifier-bound variable
// (q!name / qi) outside the quantifier that binds it.
func hasFreeBound(t *Term, bound map[string]bool) bool {
	if len(t.Args) == 0 {
		if !t.Sym && !t.Lit && (strings.HasPrefix(t.Op, "q!") || t.Op == "qi") {
			return !bound[t.Op]
		}
		return false
	}
	if !t.Sym && (strings.HasPrefix(t.Op, "forall") || strings.HasPrefix(t.Op, "exists")) {
		// Op is "forall ((q!x Int))" or plain "forall" with str set
		nb := map[string]bool{}
		for k := range bound {
			nb[k] = true
		}
		s := t.String()
		if i := strings.Index(s, "(("); i >= 0 {
			rest := s[i+2:]
			if j := strings.IndexByte(rest, ' '); j > 0 {
				nb[rest[:j]] = true
			}
		}
		for _, a := range t.Args {
			if hasFreeBound(a, nb) {
				return true
			}
		}
		return false
	}
	for _, a := range t.Args {
		if hasFreeBound(a, bound) {
			return true
		}
	}
	return false
}
