package main

import (
	"encoding/json"
	"flag"
	"fmt"
	"os"
	"path/filepath"
	"sort"
	"strings"
	"sync"
	"time"
)

func cmdCheck(args []string) {
	fs := flag.NewFlagSet("check", flag.ExitOnError)
	repo := fs.String("repo", "/repo", "repository working tree")
	prop := fs.String("prop", "", "property id")
	tier := fs.String("tier", "quick", "quick|thorough")
	verifDir := fs.String("verif", "/verif", "verif directory")
	evidence := fs.String("evidence", "", "evidence file (default <verif>/evidence/<prop>.json)")
	noEvidence := fs.Bool("no-evidence", false, "do not write evidence (selftest runs)")
	verbose := fs.Bool("v", false, "verbose")
	onlyFunc := fs.String("func", "", "restrict to one function key (debugging)")
	knownPath := fs.String("known", "", "known findings file (default <verif>/known_findings.jsonl)")
	fs.Parse(args)
	if *prop == "" {
		fmt.Fprintln(os.Stderr, "--prop required")
		os.Exit(2)
	}
	t0 := time.Now()
	seed := 0
	fmt.Sscanf(os.Getenv("VERIF_SEED"), "%d", &seed)
	if t := os.Getenv("VERIF_TIER"); t == "quick" || t == "thorough" {
		*tier = t
	}
	p, err := LoadProgram(*repo, "verif")
	if err != nil {
		// the tree does not build with the contracts: machinery cannot run
		fmt.Fprintln(os.Stderr, "load error:", err)
		os.Exit(2)
	}
	p.scanUserFields()
	cs, err := LoadContracts(*repo, p.Module)
	if err != nil {
		fmt.Fprintln(os.Stderr, "contract error:", err)
		os.Exit(2)
	}
	if *knownPath == "" {
		*knownPath = filepath.Join(*verifDir, "known_findings.jsonl")
	}
	known, err := loadKnown(*knownPath)
	if err != nil {
		fmt.Fprintln(os.Stderr, "known findings:", err)
		os.Exit(2)
	}
	allClausesMode = *tier == "thorough"
	v := &Verifier{Prog: p, CS: cs, Prop: *prop, Tier: *tier, Known: known, UsedEnv: map[string]bool{}, UsedSummaries: map[string]bool{}, Verified: map[string]bool{}, AllClauses: map[string]bool{}}
	var keys []string
	for k, fc := range cs.Funcs {
		if *onlyFunc != "" && k != *onlyFunc {
			continue
		}
		applies := false
		for _, c := range fc.Clauses {
			if (c.Kind == "ensures" || c.Kind == "invariant") && c.appliesTo(*prop, fc) {
				applies = true
			}
		}
		if applies {
			keys = append(keys, k)
		}
	}
	sort.Strings(keys)
	for _, k := range keys {
		v.VerifyFunc(cs.Funcs[k])
	}
	// callee contracts that were assumed at call sites are proved against
	// their bodies in the same run (all of their clauses)
	for changed := true; changed; {
		changed = false
		var ks []string
		for k := range v.UsedSummaries {
			if !v.AllClauses[k] {
				ks = append(ks, k)
			}
		}
		sort.Strings(ks)
		for _, k := range ks {
			v.AllClauses[k] = true
			if v.Verified[k] {
				// already verified for this property only: redo with all clauses
				var keep []*Obligation
				for _, o := range v.Obls {
					if o.Func != k {
						keep = append(keep, o)
					}
				}
				v.Obls = keep
			}
			v.VerifyFunc(cs.Funcs[k])
			changed = true
		}
	}
	v.addLemmas(*verifDir)
	v.addSweeps()

	tExplore := time.Since(t0).Seconds()
	timeout := 10
	if *tier == "thorough" {
		timeout = 60
	}
	runBoundedExecs(v.Obls, p, *repo, *verifDir)
	var pending []*Obligation
	for _, o := range v.Obls {
		if o.Status == "" {
			pending = append(pending, o)
		}
	}
	tSolve0 := time.Now()
	solverMs := decideAll(pending, timeout, 16, *tier == "thorough")
	// an "undecided" of the quick tier may be nothing but a timeout under load (sixteen
	// workers racing three solvers each, possibly next to other checks): the few goals left
	// undecided get a second, calmer attempt with four times the time before they are reported
	if *tier != "thorough" {
		var again []*Obligation
		for _, o := range pending {
			if o.Status == "undecided" && len(again) < 12 {
				o.Status = ""
				again = append(again, o)
			}
		}
		if len(again) > 0 {
			for k, ms := range decideAll(again, timeout*4, 4, false) {
				solverMs[k] += ms
			}
		}
	}
	tSolve := time.Since(tSolve0).Seconds()
	decideRegions(v.Regions)

	if os.Getenv("GVC_SLOW") != "" {
		obs := append([]*Obligation(nil), v.Obls...)
		sort.Slice(obs, func(i, j int) bool { return obs[i].Ms > obs[j].Ms })
		for i := 0; i < 8 && i < len(obs); i++ {
			fmt.Fprintf(os.Stderr, "SLOW %dms %s path=%d solver=%s status=%s\n", obs[i].Ms, obs[i].Name, obs[i].Path, obs[i].Solver, obs[i].Status)
		}
	}
	if d := os.Getenv("GVC_DUMP"); d != "" {
		// debugging: GVC_DUMP=<obligation-name>:<path> prints that query
		for _, o := range v.Obls {
			if fmt.Sprintf("%s:%d", o.Name, o.Path) == d {
				fmt.Fprintf(os.Stderr, "---- %s path %d status=%s solver=%s\n%s\n", o.Name, o.Path, o.Status, o.Solver, o.smt(true))
			}
		}
	}

	// ---- classify ----------------------------------------------------------
	type group struct {
		name                                       string
		total, discharged, refuted, undecided, bnd int
		first                                      *Obligation
	}
	groups := map[string]*group{}
	var order []string
	nObl, nDis, nBounded := 0, 0, 0
	var coverAny map[string]bool
	var failed []*Obligation
	for _, o := range v.Obls {
		g := groups[o.Name]
		if g == nil {
			g = &group{name: o.Name}
			groups[o.Name] = g
			order = append(order, o.Name)
		}
		if o.Kind == "cover_path" {
			if coverAny == nil {
				coverAny = map[string]bool{}
			}
			if _, has := coverAny[o.Func]; !has {
				coverAny[o.Func] = false
			}
			if o.Status == "covered" {
				coverAny[o.Func] = true
			}
			continue
		}
		if o.Kind == "requires_sat" || o.Kind == "cover" {
			if o.Status != "covered" {
				v.Errors = append(v.Errors, fmt.Sprintf("vacuity: %s is %s (%s)", o.Name, o.Status, o.Solver))
			}
			continue
		}
		if o.Status == "solver-error" {
			v.Errors = append(v.Errors, fmt.Sprintf("solver rejected the query for %s: %s", o.Name, firstLines(o.Output, 3)))
		}
		g.total++
		if o.Bounded {
			g.bnd++
			nBounded++
			if o.Status == "discharged" {
				continue // bounded stand-in: never counted as proved
			}
		}
		nObl++
		switch o.Status {
		case "discharged":
			g.discharged++
			nDis++
		case "refuted":
			g.refuted++
			failed = append(failed, o)
			if g.first == nil {
				g.first = o
			}
		default:
			g.undecided++
			failed = append(failed, o)
			if g.first == nil {
				g.first = o
			}
		}
	}
	sort.Strings(order)
	for f, ok := range coverAny {
		if !ok {
			v.Errors = append(v.Errors, "vacuity: none of the sampled returning paths of "+f+" is satisfiable together with the environment facts")
		}
	}

	// ---- known findings ------------------------------------------------------
	knownPrinted := map[string]bool{}
	var knownLines []string
	for _, r := range v.Regions {
		if r.Status == "covered" && !knownPrinted[r.Name] {
			knownPrinted[r.Name] = true
			// (the property the finding is recorded under: in the thorough tier a clause is
			// also checked when its function is listed for another property)
			kp := *prop
			for _, k := range v.Known {
				if k.Status == "known" && k.Obligation == r.Name {
					kp = k.Property
				}
			}
			line := fmt.Sprintf("KNOWN-FINDING: property=%s %s %s", kp, r.Name, strings.Join(r.Notes, "; "))
			knownLines = append(knownLines, line)
			fmt.Println(line)
		}
	}

	// ---- violations ----------------------------------------------------------
	replayDir := filepath.Join(*verifDir, "replays")
	violations := 0
	reported := map[string]bool{}
	var firsts []*Obligation
	// further refuted paths of the same obligation (with a different effect
	// sequence): tried in turn when the first one cannot be realised on the real
	// code (it may need, say, the random source to fail)
	alternates := map[string][]*Obligation{}
	altSeen := map[string]map[string]bool{}
	for _, o := range failed {
		sig := strings.Join(traceKinds(o), "|")
		if reported[o.Name] {
			if o.Status == "refuted" && o.PathSt != nil && len(alternates[o.Name]) < 3 && !altSeen[o.Name][sig] {
				altSeen[o.Name][sig] = true
				alternates[o.Name] = append(alternates[o.Name], o)
			}
			continue
		}
		reported[o.Name] = true
		altSeen[o.Name] = map[string]bool{sig: true}
		firsts = append(firsts, o)
	}
	// replays run in parallel; at most maxReplays per run (the others are
	// reported without a concrete input)
	maxReplays := 4
	if *tier == "thorough" {
		maxReplays = 64
	}
	confirmedBy := make([]bool, len(firsts))
	paths := make([]string, len(firsts))
	var rwg sync.WaitGroup
	for i, o := range firsts {
		os.MkdirAll(replayDir, 0o755)
		paths[i] = filepath.Join(replayDir, fmt.Sprintf("%s-%s.json", *prop, sanitize(o.Name)))
		rwg.Add(1)
		go func(i int, o *Obligation) {
			defer rwg.Done()
			confirmedBy[i] = writeReplay(paths[i], *prop, o, p, *repo, i < maxReplays)
			if !confirmedBy[i] && i < maxReplays {
				for k, alt := range alternates[o.Name] {
					altPath := strings.TrimSuffix(paths[i], ".json") + fmt.Sprintf(".alt%d.json", k+1)
					if writeReplay(altPath, *prop, alt, p, *repo, true) {
						// the confirmed alternative becomes the replay of record
						os.Rename(altPath, paths[i])
						confirmedBy[i] = true
						break
					}
					os.Remove(altPath)
				}
			}
		}(i, o)
	}
	rwg.Wait()
	for i, o := range firsts {
		violations++
		suffix := ""
		if !confirmedBy[i] {
			suffix = " no-failing-input-found"
		}
		fmt.Printf("VIOLATION property=%s replay=%s obligation=%s status=%s%s\n", *prop, paths[i], o.Name, o.Status, suffix)
	}
	if *verbose {
		seenLast := map[string]bool{}
		for _, o := range failed {
			last := ""
			if len(o.Trace) > 0 {
				last = o.Trace[len(o.Trace)-1]
			}
			k := o.Name + "|" + last
			if seenLast[k] {
				continue
			}
			seenLast[k] = true
			fmt.Fprintf(os.Stderr, "  FAILED %s path=%d status=%s last-event: %s\n", o.Name, o.Path, o.Status, last)
		}
	}
	for _, e := range v.Errors {
		fmt.Fprintln(os.Stderr, "MACHINERY-ERROR:", e)
	}
	for _, e := range v.Warnings {
		fmt.Fprintln(os.Stderr, "WARNING:", e)
	}

	// ---- evidence --------------------------------------------------------------
	wall := time.Since(t0).Seconds()
	if !*noEvidence {
		evPath := *evidence
		if evPath == "" {
			evPath = filepath.Join(*verifDir, "evidence", *prop+".json")
		}
		writeEvidence(evPath, v, *prop, *tier, seed, nObl, nDis, nBounded, violations, wall, solverMs, order, groups2map(groups, order), knownLines, *repo)
	}
	if *verbose || violations > 0 || len(v.Errors) > 0 {
		for _, name := range order {
			g := groups[name]
			if g.total == 0 {
				continue
			}
			fmt.Fprintf(os.Stderr, "  %-70s paths=%d discharged=%d refuted=%d undecided=%d bounded=%d\n", name, g.total, g.discharged, g.refuted, g.undecided, g.bnd)
		}
		for _, r := range v.Reports {
			fmt.Fprintf(os.Stderr, "  func %s: paths=%d panics=%d bounded=%d aborted=%q\n", r.Key, r.Paths, r.Panics, r.Bounded, r.Aborted)
			for _, u := range r.Unexercised {
				fmt.Fprintf(os.Stderr, "      UNEXERCISED %s\n", u)
			}
			for _, n := range r.Notes {
				fmt.Fprintf(os.Stderr, "      note: %s\n", n)
			}
		}
	}
	fmt.Fprintf(os.Stderr, "%s %s: functions=%d obligations=%d discharged=%d bounded=%d violations=%d known=%d errors=%d wall=%.1fs (load+explore %.1fs, solve %.1fs)\n",
		*prop, *tier, len(v.Reports), nObl, nDis, nBounded, violations, len(knownLines), len(v.Errors), wall, tExplore, tSolve)
	if violations > 0 {
		// a reported violation decides the exit status even when, in addition, some
		// other obligation could not be evaluated (machinery errors are listed above)
		os.Exit(1)
	}
	if len(v.Errors) > 0 {
		os.Exit(2)
	}
	if nObl == 0 {
		fmt.Fprintln(os.Stderr, "MACHINERY-ERROR: zero obligations generated")
		os.Exit(2)
	}
	if violations > 0 {
		os.Exit(1)
	}
}

func groups2map(gs interface{}, order []string) map[string]map[string]int {
	return nil
}

func sanitize(s string) string {
	var b strings.Builder
	for _, c := range s {
		if c >= 'a' && c <= 'z' || c >= 'A' && c <= 'Z' || c >= '0' && c <= '9' || c == '_' || c == '.' || c == '-' {
			b.WriteRune(c)
		} else {
			b.WriteByte('_')
		}
	}
	return b.String()
}

// writeReplay writes the replay description of a failed obligation. It
// returns true if a concrete failing input was confirmed on the real code.
func writeReplay(path, prop string, o *Obligation, p *Program, repo string, doReplay bool) bool {
	r := map[string]interface{}{
		"property":   prop,
		"obligation": o.Name,
		"function":   o.Func,
		"kind":       o.Kind,
		"path":       o.Path,
		"status":     o.Status,
		"solver":     o.Solver,
		"trace":      o.Trace,
		"notes":      o.Notes,
		"goal":       o.Goal.String(),
		"model":      o.Model,
		"solver_out": o.Output,
	}
	confirmed := false
	if o.Kind == "bounded_exec" {
		// the harness ran the real function: its output names the failing inputs
		r["replay"] = map[string]interface{}{"confirmed": o.Status == "refuted", "command": o.BoundedCmd + "  (overlay injects /verif/bounded/" + o.Harness + ".go)", "harness_source": o.BoundedSrc, "output": o.Output, "pkg_dir": strings.SplitN(o.Func, ":", 2)[0], "run": "TestVerifBounded$"}
		confirmed = o.Status == "refuted"
	}
	if o.Status == "refuted" && o.Model != "" && !doReplay {
		r["replay"] = map[string]interface{}{"confirmed": false, "not_replayed": "replay budget of this run used by other failed obligations"}
	}
	if o.Status == "refuted" && o.Model != "" && doReplay {
		if res := tryReplay(o, p, repo); res != nil {
			r["replay"] = res
			if ok, _ := res["confirmed"].(bool); ok {
				confirmed = true
			}
		}
	}
	r["confirmed_on_real_code"] = confirmed
	data, _ := json.MarshalIndent(r, "", " ")
	os.WriteFile(path, data, 0o644)
	return confirmed
}

func writeEvidence(path string, v *Verifier, prop, tier string, seed int, nObl, nDis, nBounded, violations int, wall float64, solverMs map[string]int64, order []string, _ map[string]map[string]int, known []string, repo string) {
	os.MkdirAll(filepath.Dir(path), 0o755)
	var trusted []string
	var envNames []string
	for k := range v.UsedEnv {
		envNames = append(envNames, k)
	}
	sort.Strings(envNames)
	for _, k := range envNames {
		if e := envTable[k]; e != nil {
			tag := "assumed"
			if e.InRepo {
				tag = "in-repo summary"
			}
			trusted = append(trusted, fmt.Sprintf("%s [%s]: %s", k, tag, e.Contract))
		} else {
			trusted = append(trusted, k)
		}
	}
	trusted = append(trusted,
		"integers are mathematical (SMT Int): machine arithmetic treated as mathematical",
		"SSA construction by golang.org/x/tools/go/ssa v0.29.0 is trusted",
		"termination is not proved",
		"wf_config: receiver, request/response parameters and configuration components are non-nil",
		"wf_types: values asserted to the repository's user/storer/request-value interfaces implement them",
		"distinct parameters and distinct Load results do not alias; package-level variables are immutable after init",
		"goroutine bodies are executed inline in one sequential order (no interleavings)",
	)
	var funcs []map[string]interface{}
	for _, r := range v.Reports {
		funcs = append(funcs, map[string]interface{}{"function": r.Key, "paths": r.Paths, "panic_paths": r.Panics, "bounded_paths": r.Bounded, "clauses": r.Clauses, "inlined": r.Inlined, "unmodelled_notes": r.Notes})
	}
	perName := map[string]map[string]int{}
	solverCount := map[string]int{}
	var samples []interface{}
	for _, o := range v.Obls {
		m := perName[o.Name]
		if m == nil {
			m = map[string]int{}
			perName[o.Name] = m
		}
		m[o.Status]++
		if o.Status == "discharged" {
			solverCount[o.Solver]++
		}
	}
	// samples: a few obligations written out
	seen := map[string]bool{}
	for _, o := range v.Obls {
		if len(samples) >= 6 || seen[o.Name] || o.Kind == "requires_sat" {
			continue
		}
		if o.Goal == TTrue {
			continue
		}
		seen[o.Name] = true
		g := o.Goal.String()
		if len(g) > 600 {
			g = g[:600] + "..."
		}
		samples = append(samples, map[string]interface{}{"obligation": o.Name, "kind": o.Kind, "path": o.Path, "status": o.Status, "solver": o.Solver, "ms": o.Ms, "hypotheses": len(o.Hyps), "goal": g, "trace": o.Trace})
	}
	if len(samples) == 0 {
		for _, o := range v.Obls {
			samples = append(samples, map[string]interface{}{"obligation": o.Name, "status": o.Status})
			break
		}
	}
	var names []map[string]interface{}
	for _, n := range order {
		names = append(names, map[string]interface{}{"obligation": n, "results": perName[n]})
	}
	cov := map[string]interface{}{
		"obligations":              nObl,
		"discharged":               nDis,
		"checker_cmd":              fmt.Sprintf("/verif/bin/gvc check --prop %s --tier %s --repo %s (VCs over go/ssa; z3-new 5.1.0, cvc5 1.0, z3 4.8.12)", prop, tier, repo),
		"trusted_base":             trusted,
		"functions_under_contract": funcs,
		"obligation_groups":        names,
		"discharged_by_solver":     solverCount,
		"solver_ms":                solverMs,
		"bounded_not_counted":      nBounded,
		"known_findings_printed":   known,
		"samples":                  samples,
		"contract_files":           v.CS.Files,
		"machinery_errors":         v.Errors,
		"warnings":                 v.Warnings,
	}
	ev := map[string]interface{}{
		"property_id": prop,
		"tier":        tier,
		"seed":        seed,
		"level":       "proof",
		"coverage":    cov,
		"assumptions": trusted,
		"wall_s":      wall,
		"violations":  violations,
	}
	data, _ := json.MarshalIndent(ev, "", " ")
	os.WriteFile(path, data, 0o644)
}

// decideRegions re-checks known-finding regions: per finding, paths are tried
// until one still exhibits the failure (short timeout: a region that cannot
// be decided quickly on one path is tried on the next).
func decideRegions(regs []*Obligation) {
	byName := map[string][]*Obligation{}
	var names []string
	for _, r := range regs {
		if _, ok := byName[r.Name]; !ok {
			names = append(names, r.Name)
		}
		byName[r.Name] = append(byName[r.Name], r)
	}
	dir, _ := os.MkdirTemp("", "gvc-reg-")
	defer os.RemoveAll(dir)
	for gi, n := range names {
		group := byName[n]
		// smallest queries first, 16 at a time, stop at the first that still fails
		sort.SliceStable(group, func(i, j int) bool { return len(group[i].Hyps) < len(group[j].Hyps) })
		found := false
		for lo := 0; lo < len(group) && !found && lo < 160; lo += 16 {
			hi := lo + 16
			if hi > len(group) {
				hi = len(group)
			}
			var wg sync.WaitGroup
			for i := lo; i < hi; i++ {
				wg.Add(1)
				go func(i int) {
					defer wg.Done()
					decide(group[i], dir, gi*100000+i, 3, false)
				}(i)
			}
			wg.Wait()
			for i := lo; i < hi; i++ {
				if group[i].Status == "covered" {
					found = true
				}
			}
		}
	}
}

func traceKinds(o *Obligation) []string {
	var ks []string
	if o.PathSt != nil {
		for _, e := range o.PathSt.Trace {
			ks = append(ks, e.Kind)
		}
	}
	return ks
}
