package main

// Source text of the replay harness: a self-contained in-package test that is
// injected with `go test -overlay` (nothing is written into /repo). It wires a
// scripted environment (storer, hasher, body reader, event handlers, client
// state, responder, redirector, sender, logger) that answers in call order as
// the solver's model says, calls the REAL function and prints the concrete
// effect trace.

const replayHarness = `//go:build verif

package %PKG%

import (
	"context"
	"encoding/json"
	"errors"
	"fmt"
	"net/http"
	"net/http/httptest"
	"net/url"
	"os"
	"strings"
	"testing"
	"time"

	"github.com/pquerna/otp/totp"
	%ABIMPORT%
%EXTRAIMPORTS%
)

var _ = totp.Validate

var _ = time.Now
var _ = url.Parse
var _ = strings.Contains

type vrCall struct {
	Kind string                 ` + "`json:\"kind\"`" + `
	Res  map[string]interface{} ` + "`json:\"res\"`" + `
}

type vrScript struct {
	Request struct {
		Method   string            ` + "`json:\"method\"`" + `
		Path     string            ` + "`json:\"path\"`" + `
		RawQuery string            ` + "`json:\"rawquery\"`" + `
		Form     map[string]string ` + "`json:\"form\"`" + `
	} ` + "`json:\"request\"`" + `
	Session    map[string]string                 ` + "`json:\"session\"`" + `
	HasSession bool                              ` + "`json:\"has_session\"`" + `
	Cookie     map[string]string                 ` + "`json:\"cookie\"`" + `
	HasCookie  bool                              ` + "`json:\"has_cookie\"`" + `
	CtxUser    string                            ` + "`json:\"ctx_user\"`" + `
	CtxPID     *string                           ` + "`json:\"ctx_pid\"`" + `
	CtxValues  map[string]interface{}            ` + "`json:\"ctx_values\"`" + `
	Users      map[string]map[string]interface{} ` + "`json:\"users\"`" + `
	TimeRel    bool                              ` + "`json:\"time_relative\"`" + `
	TOTPCodes  []struct {
		Marker string ` + "`json:\"marker\"`" + `
		Secret string ` + "`json:\"secret\"`" + `
	} ` + "`json:\"totp_codes\"`" + `
	StateTimes map[string]struct {
		Rel    int64  ` + "`json:\"rel\"`" + `
		Layout string ` + "`json:\"layout\"`" + `
	} ` + "`json:\"state_times\"`" + `
	Calls      []vrCall                          ` + "`json:\"calls\"`" + `
}

type vrEvent struct {
	Kind string        ` + "`json:\"kind\"`" + `
	Args []interface{} ` + "`json:\"args\"`" + `
	Res  []interface{} ` + "`json:\"res\"`" + `
}

type vrState struct {
	script  vrScript
	trace   []vrEvent
	w       http.ResponseWriter
	seenS   int
	seenC   int
	nextErr int
	users   map[*vrUser]string
	off     int64 // real now - the model's first clock reading (0)
}

// vrBytes undoes the Latin-1 transport encoding of byte strings.
func vrBytes(s string) string {
	b := make([]byte, 0, len(s))
	for _, r := range s {
		b = append(b, byte(r))
	}
	return string(b)
}

func vrFix(v interface{}) interface{} {
	switch x := v.(type) {
	case string:
		return vrBytes(x)
	case map[string]interface{}:
		for k, e := range x {
			x[k] = vrFix(e)
		}
		return x
	case []interface{}:
		for i, e := range x {
			x[i] = vrFix(e)
		}
		return x
	}
	return v
}

func (s *vrState) fixScript() {
	sc := &s.script
	sc.Request.Method, sc.Request.Path, sc.Request.RawQuery = vrBytes(sc.Request.Method), vrBytes(sc.Request.Path), vrBytes(sc.Request.RawQuery)
	for k, v := range sc.Request.Form {
		sc.Request.Form[k] = vrBytes(v)
	}
	for k, v := range sc.Session {
		sc.Session[k] = vrBytes(v)
	}
	for k, v := range sc.Cookie {
		sc.Cookie[k] = vrBytes(v)
	}
	if sc.CtxPID != nil {
		p := vrBytes(*sc.CtxPID)
		sc.CtxPID = &p
	}
	vrFix(sc.CtxValues)
	for _, u := range sc.Users {
		vrFix(u)
	}
	for i := range sc.Calls {
		vrFix(sc.Calls[i].Res)
	}
	if sc.TimeRel {
		s.off = time.Now().UnixNano()
	}
	for _, tc := range sc.TOTPCodes {
		code, err := totp.GenerateCode(tc.Secret, time.Now())
		if err != nil {
			continue
		}
		sub := func(v string) string { return strings.ReplaceAll(v, tc.Marker, code) }
		for k, v := range sc.Request.Form {
			sc.Request.Form[k] = sub(v)
		}
		for k, v := range sc.Session {
			sc.Session[k] = sub(v)
		}
		for i := range sc.Calls {
			if vals, ok := sc.Calls[i].Res["values"].(map[string]interface{}); ok {
				for k, v := range vals {
					if str, ok := v.(string); ok {
						vals[k] = sub(str)
					}
				}
			}
		}
	}
	for k, tv := range sc.StateTimes {
		lay := tv.Layout
		if lay == "" {
			lay = time.RFC3339
		}
		val := time.Unix(0, tv.Rel+s.off).UTC().Format(lay)
		if tv.Layout == "unix" {
			val = fmt.Sprint(time.Unix(0, tv.Rel+s.off).Unix())
		}
		if strings.HasPrefix(k, "cookie:") {
			sc.Cookie[strings.TrimPrefix(k, "cookie:")] = val
		} else {
			sc.Session[strings.TrimPrefix(k, "session:")] = val
		}
	}
}

func (s *vrState) flush() {
	if s.w == nil {
		return
	}
	defer func() { recover() }()
	se, ck := %ABQ%VerifPendingClientStateEvents(s.w)
	for ; s.seenS < len(se); s.seenS++ {
		s.trace = append(s.trace, vrStateEvent("Sess", se[s.seenS]))
	}
	for ; s.seenC < len(ck); s.seenC++ {
		s.trace = append(s.trace, vrStateEvent("Cook", ck[s.seenC]))
	}
}

func vrStateEvent(store string, e %ABQ%ClientStateEvent) vrEvent {
	switch e.Kind {
	case %ABQ%ClientStateEventPut:
		return vrEvent{Kind: store + ".Put", Args: []interface{}{e.Key, e.Value}}
	case %ABQ%ClientStateEventDel:
		return vrEvent{Kind: store + ".Del", Args: []interface{}{e.Key}}
	}
	return vrEvent{Kind: store + ".DelAll", Args: []interface{}{e.Key}}
}

func (s *vrState) emit(kind string, args []interface{}, res []interface{}) {
	s.flush()
	s.trace = append(s.trace, vrEvent{Kind: kind, Args: args, Res: res})
}

// pop returns the next scripted answer of the given kind (nil if the script has none left).
func (s *vrState) pop(kind string) map[string]interface{} {
	for i, c := range s.script.Calls {
		if c.Kind == kind {
			s.script.Calls = append(s.script.Calls[:i:i], s.script.Calls[i+1:]...)
			return c.Res
		}
	}
	return nil
}

func (s *vrState) err(v interface{}) error {
	name, _ := v.(string)
	switch name {
	case "", "nil":
		return nil
	case "ErrUserNotFound":
		return %ABQ%ErrUserNotFound
	case "ErrUserFound":
		return %ABQ%ErrUserFound
	case "ErrTokenNotFound":
		return %ABQ%ErrTokenNotFound
	}
	s.nextErr++
	return fmt.Errorf("scripted error %d (%s)", s.nextErr, name)
}

func vrErrName(e error) interface{} {
	if e == nil {
		return "nil"
	}
	switch e {
	case %ABQ%ErrUserNotFound:
		return "ErrUserNotFound"
	case %ABQ%ErrUserFound:
		return "ErrUserFound"
	case %ABQ%ErrTokenNotFound:
		return "ErrTokenNotFound"
	}
	return "error: " + e.Error()
}

// ---- user records (copy on load / snapshot on save) -------------------------

type vrUser struct {
	F   map[string]interface{}
	off int64
}

func (s *vrState) user(id string) *vrUser {
	if id == "" || id == "0" {
		return nil
	}
	u := &vrUser{F: map[string]interface{}{}, off: s.off}
	for k, v := range s.script.Users[id] {
		u.F[k] = v
	}
	s.users[u] = id
	return u
}

func (u *vrUser) str(k string) string {
	v, _ := u.F[k].(string)
	return v
}
func (u *vrUser) boolean(k string) bool {
	v, _ := u.F[k].(bool)
	return v
}
func (u *vrUser) integer(k string) int {
	switch v := u.F[k].(type) {
	case float64:
		return int(v)
	case int:
		return v
	}
	return 0
}
func (u *vrUser) tm(k string) time.Time {
	switch v := u.F[k].(type) {
	case time.Time:
		return v
	case float64:
		if v < -9e18 {
			return time.Time{} // the zero instant
		}
		return time.Unix(0, int64(v)+u.off).UTC()
	}
	return time.Time{}
}
func (u *vrUser) snapshot() map[string]interface{} {
	m := map[string]interface{}{}
	for k, v := range u.F {
		if t, ok := v.(time.Time); ok {
			m[k] = t.UnixNano()
			continue
		}
		m[k] = v
	}
	return m
}

%USERMETHODS%

// ---- request values ---------------------------------------------------------

type vrValues struct {
	s *vrState
	F map[string]interface{}
}

func (v *vrValues) Validate() []error {
	if n, _ := v.F["validate_errors"].(float64); n > 0 {
		return []error{errors.New("scripted validation error")}
	}
	return nil
}
func (v *vrValues) str(k string) string { s, _ := v.F[k].(string); return s }

%VALUEMETHODS%

// ---- scripted components ------------------------------------------------------

type vrStorer struct{ s *vrState }

func (st vrStorer) Load(ctx context.Context, key string) (%ABQ%User, error) {
	r := st.s.pop("Store.Load")
	id, _ := r["user"].(string)
	err := st.s.err(r["err"])
	var u %ABQ%User
	if err == nil {
		if vu := st.s.user(id); vu != nil {
			u = vu
		}
	}
	st.s.emit("Store.Load", []interface{}{key}, []interface{}{id, vrErrName(err)})
	return u, err
}
func (st vrStorer) Save(ctx context.Context, user %ABQ%User) error {
	err := st.s.err(st.s.pop("Store.Save")["err"])
	st.s.emit("Store.Save", []interface{}{vrSnap(user)}, []interface{}{vrErrName(err)})
	return err
}
func (st vrStorer) New(ctx context.Context) %ABQ%User {
	u := &vrUser{F: map[string]interface{}{}}
	st.s.users[u] = "new"
	st.s.emit("Store.New", nil, []interface{}{"new"})
	return u
}
func (st vrStorer) Create(ctx context.Context, user %ABQ%User) error {
	err := st.s.err(st.s.pop("Store.Create")["err"])
	st.s.emit("Store.Create", []interface{}{vrSnap(user)}, []interface{}{vrErrName(err)})
	return err
}
func (st vrStorer) LoadByConfirmSelector(ctx context.Context, selector string) (%ABQ%ConfirmableUser, error) {
	r := st.s.pop("Store.LoadByConfirmSelector")
	id, _ := r["user"].(string)
	err := st.s.err(r["err"])
	var u %ABQ%ConfirmableUser
	if err == nil {
		if vu := st.s.user(id); vu != nil {
			vu.F["ConfirmSelector"] = selector
			u = vu
		}
	}
	st.s.emit("Store.LoadByConfirmSelector", []interface{}{selector}, []interface{}{id, vrErrName(err)})
	return u, err
}
func (st vrStorer) LoadByRecoverSelector(ctx context.Context, selector string) (%ABQ%RecoverableUser, error) {
	r := st.s.pop("Store.LoadByRecoverSelector")
	id, _ := r["user"].(string)
	err := st.s.err(r["err"])
	var u %ABQ%RecoverableUser
	if err == nil {
		if vu := st.s.user(id); vu != nil {
			vu.F["RecoverSelector"] = selector
			u = vu
		}
	}
	st.s.emit("Store.LoadByRecoverSelector", []interface{}{selector}, []interface{}{id, vrErrName(err)})
	return u, err
}
func (st vrStorer) AddRememberToken(ctx context.Context, pid, token string) error {
	err := st.s.err(st.s.pop("Store.AddRememberToken")["err"])
	st.s.emit("Store.AddRememberToken", []interface{}{pid, token}, []interface{}{vrErrName(err)})
	return err
}
func (st vrStorer) DelRememberTokens(ctx context.Context, pid string) error {
	err := st.s.err(st.s.pop("Store.DelRememberTokens")["err"])
	st.s.emit("Store.DelRememberTokens", []interface{}{pid}, []interface{}{vrErrName(err)})
	return err
}
func (st vrStorer) UseRememberToken(ctx context.Context, pid, token string) error {
	err := st.s.err(st.s.pop("Store.UseRememberToken")["err"])
	st.s.emit("Store.UseRememberToken", []interface{}{pid, token}, []interface{}{vrErrName(err)})
	return err
}
func (st vrStorer) NewFromOAuth2(ctx context.Context, provider string, details map[string]string) (%ABQ%OAuth2User, error) {
	r := st.s.pop("Store.NewFromOAuth2")
	id, _ := r["user"].(string)
	err := st.s.err(r["err"])
	var u %ABQ%OAuth2User
	if err == nil {
		if vu := st.s.user(id); vu != nil {
			u = vu
		}
	}
	st.s.emit("Store.NewFromOAuth2", []interface{}{provider}, []interface{}{id, vrErrName(err)})
	return u, err
}
func (st vrStorer) SaveOAuth2(ctx context.Context, user %ABQ%OAuth2User) error {
	err := st.s.err(st.s.pop("Store.SaveOAuth2")["err"])
	st.s.emit("Store.SaveOAuth2", []interface{}{vrSnap(user)}, []interface{}{vrErrName(err)})
	return err
}

func vrSnap(u interface{}) interface{} {
	if vu, ok := u.(*vrUser); ok && vu != nil {
		return vu.snapshot()
	}
	return nil
}

type vrHasher struct{ s *vrState }

func (h vrHasher) CompareHashAndPassword(hash, password string) error {
	err := h.s.err(h.s.pop("Hash.Compare")["err"])
	h.s.emit("Hash.Compare", []interface{}{hash, password}, []interface{}{vrErrName(err)})
	return err
}
func (h vrHasher) GenerateHash(raw string) (string, error) {
	err := h.s.err(h.s.pop("Hash.Generate")["err"])
	out := "hash(" + raw + ")"
	if err != nil {
		out = ""
	}
	h.s.emit("Hash.Generate", []interface{}{raw}, []interface{}{out, vrErrName(err)})
	return out, err
}

type vrBodyReader struct{ s *vrState }

func (b vrBodyReader) Read(page string, r *http.Request) (%ABQ%Validator, error) {
	res := b.s.pop("Body.Read")
	err := b.s.err(res["err"])
	var v %ABQ%Validator
	if err == nil {
		f, _ := res["values"].(map[string]interface{})
		if f == nil {
			f = map[string]interface{}{}
		}
		v = &vrValues{s: b.s, F: f}
	}
	b.s.emit("Body.Read", []interface{}{page}, []interface{}{"values", vrErrName(err)})
	return v, err
}

type vrResponder struct{ s *vrState }

func (p vrResponder) Respond(w http.ResponseWriter, r *http.Request, code int, page string, data %ABQ%HTMLData) error {
	err := p.s.err(p.s.pop("Respond")["err"])
	d := map[string]interface{}{}
	for k, v := range data {
		d[k] = fmt.Sprint(v)
	}
	p.s.emit("Respond", []interface{}{code, page, d}, []interface{}{vrErrName(err)})
	return err
}

type vrRedirector struct{ s *vrState }

func (p vrRedirector) Redirect(w http.ResponseWriter, r *http.Request, ro %ABQ%RedirectOptions) error {
	err := p.s.err(p.s.pop("Redirect")["err"])
	p.s.emit("Redirect", []interface{}{map[string]interface{}{"Success": ro.Success, "Failure": ro.Failure, "Code": ro.Code, "RedirectPath": ro.RedirectPath, "FollowRedirParam": ro.FollowRedirParam}}, []interface{}{vrErrName(err)})
	return err
}

type vrLogger struct{ s *vrState }

func (l vrLogger) Info(m string)  { l.s.emit("Log", []interface{}{"info", m}, nil) }
func (l vrLogger) Error(m string) { l.s.emit("Log", []interface{}{"error", m}, nil) }

type vrLocalizer struct{ s *vrState }

func (l vrLocalizer) Localizef(ctx context.Context, key %ABQ%LocalizationKey, args ...interface{}) string {
	c := l.s.pop("Localize")
	txt, _ := c["text"].(string)
	l.s.emit("Localize", []interface{}{key.ID}, []interface{}{txt})
	return txt
}

type vrMailer struct{ s *vrState }

func (m vrMailer) Send(ctx context.Context, e %ABQ%Email) error {
	err := m.s.err(m.s.pop("Mail.Send")["err"])
	m.s.emit("Mail.Send", []interface{}{map[string]interface{}{"To": e.To, "Subject": e.Subject}}, []interface{}{vrErrName(err)})
	return err
}

type vrRenderer struct{ s *vrState }

func (r vrRenderer) Load(names ...string) error { return nil }
func (r vrRenderer) Render(ctx context.Context, page string, data %ABQ%HTMLData) ([]byte, string, error) {
	d := map[string]interface{}{}
	for k, v := range data {
		d[k] = fmt.Sprint(v)
	}
	r.s.emit("Render", []interface{}{page, d}, nil)
	return []byte("rendered"), "text/plain", nil
}

type vrRouter struct{ s *vrState }

func (r vrRouter) Get(path string, h http.Handler)    { r.s.emit("Router.Register", []interface{}{"GET", path}, nil) }
func (r vrRouter) Post(path string, h http.Handler)   { r.s.emit("Router.Register", []interface{}{"POST", path}, nil) }
func (r vrRouter) Delete(path string, h http.Handler) { r.s.emit("Router.Register", []interface{}{"DELETE", path}, nil) }
func (r vrRouter) ServeHTTP(w http.ResponseWriter, req *http.Request) {}

type vrErrorHandler struct{ s *vrState }

func (e vrErrorHandler) Wrap(f func(w http.ResponseWriter, r *http.Request) error) http.Handler {
	return http.HandlerFunc(func(w http.ResponseWriter, r *http.Request) { f(w, r) })
}

type vrClientState map[string]string

func (c vrClientState) Get(k string) (string, bool) { v, ok := c[k]; return v, ok }

type vrStateRW struct {
	s     *vrState
	state map[string]string
	has   bool
	name  string
}

func (rw vrStateRW) ReadState(r *http.Request) (%ABQ%ClientState, error) {
	if !rw.has {
		return nil, nil
	}
	return vrClientState(rw.state), nil
}
func (rw vrStateRW) WriteState(w http.ResponseWriter, st %ABQ%ClientState, evs []%ABQ%ClientStateEvent) error {
	return nil
}

type vrNext struct{ s *vrState }

func (n vrNext) ServeHTTP(w http.ResponseWriter, r *http.Request) {
	var cu, cp interface{} = "nil", "nil"
	if u, ok := r.Context().Value(%ABQ%CTXKeyUser).(*vrUser); ok && u != nil {
		cu = n.s.users[u]
	}
	if p := r.Context().Value(%ABQ%CTXKeyPID); p != nil {
		cp = fmt.Sprint(p)
	}
	n.s.emit("Next.ServeHTTP", []interface{}{cu, cp}, nil)
}

type vrSender struct{ s *vrState }

func (x vrSender) Send(ctx context.Context, number, text string) error {
	err := x.s.err(x.s.pop("SMS.Send")["err"])
	x.s.emit("SMS.Send", []interface{}{number, text}, []interface{}{vrErrName(err)})
	return err
}

type vrRecorder struct {
	*httptest.ResponseRecorder
	s *vrState
}

func (r vrRecorder) WriteHeader(code int) {
	r.s.emit("WriteHeader", []interface{}{code}, nil)
	r.ResponseRecorder.WriteHeader(code)
}

func TestVerifReplay(t *testing.T) {
	st := &vrState{users: map[*vrUser]string{}}
	if err := json.Unmarshal([]byte(vrScriptJSON), &st.script); err != nil {
		t.Fatal(err)
	}
	st.fixScript()
	ab := %ABQ%New()
	ab.Config.Storage.Server = vrStorer{st}
	ab.Config.Storage.SessionState = vrStateRW{s: st, state: st.script.Session, has: st.script.HasSession, name: "session"}
	ab.Config.Storage.CookieState = vrStateRW{s: st, state: st.script.Cookie, has: st.script.HasCookie, name: "cookie"}
	ab.Config.Core.Hasher = vrHasher{st}
	ab.Config.Core.BodyReader = vrBodyReader{st}
	ab.Config.Core.Responder = vrResponder{st}
	ab.Config.Core.Redirector = vrRedirector{st}
	ab.Config.Core.Logger = vrLogger{st}
	ab.Config.Core.Mailer = vrMailer{st}
	ab.Config.Core.ViewRenderer = vrRenderer{st}
	ab.Config.Core.MailRenderer = vrRenderer{st}
	ab.Config.Core.Router = vrRouter{st}
	ab.Config.Core.ErrorHandler = vrErrorHandler{st}
	ab.Config.Core.OneTimeTokenGenerator = %ABQ%NewSha512TokenGenerator()
	ab.Config.Modules.MailNoGoroutine = true
%CONFIG%
%EXTRASETUP%
	// scripted event handlers: one per (when, event); each answers the next
	// scripted Fire result (the model's result of the whole FireBefore/FireAfter)
	for ev := %ABQ%Event(0); ev < 32; ev++ {
		ev := ev
		ab.Events.Before(ev, func(w http.ResponseWriter, r *http.Request, handled bool) (bool, error) {
			res := st.pop("Fire")
			h, _ := res["handled"].(bool)
			err := st.err(res["err"])
			st.emit("Fire", []interface{}{"Before", int(ev), vrCtxUser(st, r)}, []interface{}{h, vrErrName(err)})
			return h, err
		})
		ab.Events.After(ev, func(w http.ResponseWriter, r *http.Request, handled bool) (bool, error) {
			res := st.pop("Fire")
			h, _ := res["handled"].(bool)
			err := st.err(res["err"])
			st.emit("Fire", []interface{}{"After", int(ev), vrCtxUser(st, r)}, []interface{}{h, vrErrName(err)})
			return h, err
		})
	}

	rec := vrRecorder{httptest.NewRecorder(), st}
	w := ab.NewResponse(rec)
	st.w = w
	target := st.script.Request.Path
	if target == "" {
		target = "/"
	}
	if st.script.Request.RawQuery != "" {
		target += "?" + st.script.Request.RawQuery
	}
	form := url.Values{}
	for k, v := range st.script.Request.Form {
		form.Set(k, v)
	}
	method := st.script.Request.Method
	if method == "" {
		method = "POST"
	}
	r := httptest.NewRequest(method, target, strings.NewReader(form.Encode()))
	r.Header.Set("Content-Type", "application/x-www-form-urlencoded")
	r, err := ab.LoadClientState(w, r)
	if err != nil {
		t.Fatal(err)
	}
	if st.script.CtxPID != nil {
		r = r.WithContext(context.WithValue(r.Context(), %ABQ%CTXKeyPID, *st.script.CtxPID))
	}
	if u := st.user(st.script.CtxUser); u != nil {
		r = r.WithContext(context.WithValue(r.Context(), %ABQ%CTXKeyUser, %ABQ%User(u)))
	}
	if st.script.CtxValues != nil {
		r = r.WithContext(context.WithValue(r.Context(), %ABQ%CTXKeyValues, %ABQ%Validator(&vrValues{s: st, F: st.script.CtxValues})))
	}
	var result []interface{}
	func() {
		defer func() {
			if p := recover(); p != nil {
				st.emit("Panic", []interface{}{fmt.Sprint(p)}, nil)
			}
		}()
%CALL%
	}()
	st.flush()
	out, _ := json.Marshal(map[string]interface{}{"trace": st.trace, "result": result})
	fmt.Fprintln(os.Stdout, "VERIF-REPLAY-TRACE "+string(out))
}

func vrCtxUser(st *vrState, r *http.Request) interface{} {
	if u, ok := r.Context().Value(%ABQ%CTXKeyUser).(*vrUser); ok && u != nil {
		return st.users[u]
	}
	return "nil"
}

const vrScriptJSON = %SCRIPT%
`
