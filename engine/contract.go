package main

// Contract files and the contract expression language (DESIGN 2.1, 2.2).
//
// Contracts live in /repo/<pkg>/zz_verif_contracts.go (build tag verif,
// comment-only). Lines start with "//@". Grammar:
//
//   //@ func <key>                     key as printed by `gvc list` without the package prefix
//   //@   property C01 C02
//   //@   requires <E>
//   //@   ensures[C01,C02] <label>: <E>     (tag list optional: defaults to the property line)
//   //@   invariant loop#<k> <label>: <E>
//   //@   panics_if <E>
//   //@   let <name> = <E>
//   //@ spec <name>(<params>) := <E>    package-level macro
//
// A clause continues on following "//@" lines that are indented deeper than
// the clause keyword.

import (
	"fmt"
	"os"
	"path/filepath"
	"sort"
	"strconv"
	"strings"
	"unicode"
)

type FuncContract struct {
	Pkg     string // relative package path
	Key     string // full key "<relpkg>:<name>"
	Props   []string
	Clauses []*Clause
	File    string
	Line    int
	Lets    []*Clause
	Options map[string]string
	Ghosts  []*GhostClause
}

// GhostClause: ghost state attached to a session key. Whenever the function
// (inlined or not) emits an event matching Pattern, the ghost variable Name
// becomes Value (evaluated over the function's parameters).
type GhostClause struct {
	Name    string
	Pattern *Node
	Value   *Node
	Line    int
}

type SpecMacro struct {
	Name   string
	Params []string
	Body   *Node
}

type ContractSet struct {
	Funcs  map[string]*FuncContract
	Macros map[string]*SpecMacro // key: relpkg + ":" + name, and global name
	Files  []string
}

type Clause struct {
	Kind    string // requires | ensures | invariant | panics_if | let | modifies
	Label   string
	Loop    int
	Props   []string
	Text    string
	Expr    *Node
	Line    int
	Default bool // clause of a default contract (a prohibition; may be vacuous)
}

// crossCutting properties are claimed on almost every function for one clause of
// their own (no secret in logs/storage, error outcomes, frame): for them the
// tags select. For every other property the thorough tier checks a function that
// lists the property against ALL its clauses: what one property's clause pins down is
// usually what another property relies on as well (rounds 2-5 of the seeded
// changes: 15 of 41 misses were caught by "another property's" clause).
var crossCutting = map[string]bool{"C17": true, "C18": true, "C20": true}

// allClausesMode is switched on by the thorough tier (the quick tier goes by the
// tags: with all clauses the two 2FA validators alone cost about 90 s per property).
var allClausesMode bool

// taggedFor: the clause is claimed for the property by its own tags (or is untagged).
func (c *Clause) taggedFor(prop string, fc *FuncContract) bool {
	ps := c.Props
	if len(ps) == 0 {
		ps = fc.Props
	}
	for _, p := range ps {
		if p == prop {
			return true
		}
	}
	return false
}

func (c *Clause) appliesTo(prop string, fc *FuncContract) bool {
	ps := c.Props
	if len(ps) == 0 || (allClausesMode && !crossCutting[prop]) {
		ps = fc.Props
	}
	for _, p := range ps {
		if p == prop {
			return true
		}
	}
	return false
}

func LoadContracts(repo string, module string) (*ContractSet, error) {
	cs := &ContractSet{Funcs: map[string]*FuncContract{}, Macros: map[string]*SpecMacro{}}
	var files []string
	filepath.Walk(repo, func(p string, info os.FileInfo, err error) error {
		if err != nil {
			return nil
		}
		if info.IsDir() && (info.Name() == ".git" || info.Name() == "vendor") {
			return filepath.SkipDir
		}
		if !info.IsDir() && info.Name() == "zz_verif_contracts.go" {
			files = append(files, p)
		}
		return nil
	})
	sort.Strings(files)
	for _, f := range files {
		rel, _ := filepath.Rel(repo, filepath.Dir(f))
		if rel == "." {
			rel = ""
		}
		if err := cs.parseFile(f, filepath.ToSlash(rel)); err != nil {
			return nil, err
		}
		cs.Files = append(cs.Files, f)
	}
	return cs, nil
}

type rawLine struct {
	indent int
	text   string
	line   int
}

func (cs *ContractSet) parseFile(path, rel string) error {
	data, err := os.ReadFile(path)
	if err != nil {
		return err
	}
	var lines []rawLine
	for i, l := range strings.Split(string(data), "\n") {
		t := strings.TrimSpace(l)
		if !strings.HasPrefix(t, "//@") {
			continue
		}
		body := t[3:]
		trimmed := strings.TrimLeft(body, " \t")
		if trimmed == "" || strings.HasPrefix(trimmed, "--") {
			continue
		}
		lines = append(lines, rawLine{indent: len(body) - len(trimmed), text: strings.TrimRight(trimmed, " \t"), line: i + 1})
	}
	// join continuation lines
	var joined []rawLine
	keywords := map[string]bool{"func": true, "property": true, "requires": true, "ensures": true, "invariant": true, "panics_if": true, "let": true, "spec": true, "option": true, "ghost": true}
	for _, l := range lines {
		first := l.text
		if i := strings.IndexAny(first, " \t["); i > 0 {
			first = first[:i]
		}
		if keywords[first] || len(joined) == 0 {
			joined = append(joined, l)
			continue
		}
		// strip trailing comment "-- ..."
		joined[len(joined)-1].text += " " + l.text
	}
	var cur *FuncContract
	for _, l := range joined {
		txt := l.text
		if i := strings.Index(txt, " -- "); i >= 0 {
			txt = strings.TrimSpace(txt[:i])
		}
		word, rest := splitWord(txt)
		switch word {
		case "func":
			key := rel + ":" + strings.TrimSpace(rest)
			cur = &FuncContract{Pkg: rel, Key: key, File: path, Line: l.line, Options: map[string]string{}}
			if _, dup := cs.Funcs[key]; dup {
				return fmt.Errorf("%s:%d: duplicate contract for %s", path, l.line, key)
			}
			cs.Funcs[key] = cur
		case "spec":
			// spec name(a,b) := E
			i := strings.Index(rest, ":=")
			if i < 0 {
				return fmt.Errorf("%s:%d: spec without :=", path, l.line)
			}
			head := strings.TrimSpace(rest[:i])
			body := strings.TrimSpace(rest[i+2:])
			name := head
			var params []string
			if j := strings.IndexByte(head, '('); j >= 0 {
				name = strings.TrimSpace(head[:j])
				ps := strings.TrimSuffix(strings.TrimSpace(head[j+1:]), ")")
				for _, p := range strings.Split(ps, ",") {
					if p = strings.TrimSpace(p); p != "" {
						params = append(params, p)
					}
				}
			}
			n, err := parseExpr(body)
			if err != nil {
				return fmt.Errorf("%s:%d: %v", path, l.line, err)
			}
			m := &SpecMacro{Name: name, Params: params, Body: n}
			cs.Macros[rel+":"+name] = m
		default:
			if cur == nil {
				return fmt.Errorf("%s:%d: clause outside func: %s", path, l.line, txt)
			}
			switch {
			case word == "property":
				cur.Props = append(cur.Props, strings.Fields(rest)...)
			case word == "option":
				k, v := splitWord(rest)
				cur.Options[k] = strings.TrimSpace(v)
			case word == "requires" || word == "panics_if":
				n, err := parseExpr(rest)
				if err != nil {
					return fmt.Errorf("%s:%d: %v", path, l.line, err)
				}
				cur.Clauses = append(cur.Clauses, &Clause{Kind: word, Text: rest, Expr: n, Line: l.line, Label: word})
			case word == "ghost":
				// ghost <name> at <EventPattern> := <expr>
				name, r2 := splitWord(rest)
				at, r3 := splitWord(r2)
				i := strings.Index(r3, ":=")
				if at != "at" || i < 0 {
					return fmt.Errorf("%s:%d: ghost syntax: ghost <name> at <event pattern> := <expr>", path, l.line)
				}
				pat, err := parseExpr("emits " + strings.TrimSpace(r3[:i]))
				if err != nil {
					return fmt.Errorf("%s:%d: %v", path, l.line, err)
				}
				val, err := parseExpr(r3[i+2:])
				if err != nil {
					return fmt.Errorf("%s:%d: %v", path, l.line, err)
				}
				cur.Ghosts = append(cur.Ghosts, &GhostClause{Name: name, Pattern: pat, Value: val, Line: l.line})
			case word == "let":
				i := strings.IndexByte(rest, '=')
				if i < 0 {
					return fmt.Errorf("%s:%d: let without =", path, l.line)
				}
				n, err := parseExpr(rest[i+1:])
				if err != nil {
					return fmt.Errorf("%s:%d: %v", path, l.line, err)
				}
				cur.Lets = append(cur.Lets, &Clause{Kind: "let", Label: strings.TrimSpace(rest[:i]), Expr: n, Line: l.line, Text: rest})
			case strings.HasPrefix(word, "ensures") || strings.HasPrefix(word, "invariant"):
				c := &Clause{Line: l.line}
				kw := word
				if i := strings.IndexByte(kw, '['); i >= 0 {
					tags := strings.TrimSuffix(kw[i+1:], "]")
					c.Props = strings.Split(tags, ",")
					kw = kw[:i]
				}
				c.Kind = kw
				if kw == "invariant" {
					lw, r2 := splitWord(rest)
					if !strings.HasPrefix(lw, "loop#") {
						return fmt.Errorf("%s:%d: invariant needs loop#k", path, l.line)
					}
					c.Loop, _ = strconv.Atoi(lw[5:])
					rest = r2
				}
				i := strings.IndexByte(rest, ':')
				if i < 0 {
					return fmt.Errorf("%s:%d: clause needs 'label:'", path, l.line)
				}
				c.Label = strings.TrimSpace(rest[:i])
				c.Text = strings.TrimSpace(rest[i+1:])
				n, err := parseExpr(c.Text)
				if err != nil {
					return fmt.Errorf("%s:%d: %v", path, l.line, err)
				}
				c.Expr = n
				cur.Clauses = append(cur.Clauses, c)
			default:
				return fmt.Errorf("%s:%d: unknown clause %q", path, l.line, word)
			}
		}
	}
	return nil
}

func splitWord(s string) (string, string) {
	s = strings.TrimSpace(s)
	i := strings.IndexAny(s, " \t")
	if i < 0 {
		return s, ""
	}
	return s[:i], strings.TrimSpace(s[i+1:])
}

// ---------------------------------------------------------------------------
// AST

type Node struct {
	Op   string  // lit-int, lit-str, lit-bool, nil, id, binder, wild, call, sel, index, un, bin, each, before, after, emits, count, old, forall, exists, ite
	S    string  // identifier / operator / event kind / literal text
	Kids []*Node // operands; for event forms: pattern args
	Res  []*Node // result patterns for event forms
	Body *Node   // `:: E` or `=> E`
	N    int64
}

type tok struct {
	k string // id, int, str, op, eof
	s string
}

type lexer struct {
	toks []tok
	pos  int
}

func lex(s string) ([]tok, error) {
	var out []tok
	i := 0
	for i < len(s) {
		c := s[i]
		switch {
		case c == ' ' || c == '\t':
			i++
		case c == '"':
			j := i + 1
			var b strings.Builder
			for j < len(s) && s[j] != '"' {
				if s[j] == '\\' && j+1 < len(s) {
					j++
					switch s[j] {
					case 'n':
						b.WriteByte('\n')
					case 't':
						b.WriteByte('\t')
					case 'r':
						b.WriteByte('\r')
					case 'x':
						if j+2 < len(s) {
							n, _ := strconv.ParseUint(s[j+1:j+3], 16, 8)
							b.WriteByte(byte(n))
							j += 2
						}
					default:
						b.WriteByte(s[j])
					}
					j++
					continue
				}
				b.WriteByte(s[j])
				j++
			}
			if j >= len(s) {
				return nil, fmt.Errorf("unterminated string")
			}
			out = append(out, tok{"str", b.String()})
			i = j + 1
		case c >= '0' && c <= '9':
			j := i
			for j < len(s) && (s[j] >= '0' && s[j] <= '9' || s[j] == '_') {
				j++
			}
			out = append(out, tok{"int", strings.ReplaceAll(s[i:j], "_", "")})
			i = j
		case c == '_' || unicode.IsLetter(rune(c)):
			j := i
			for j < len(s) && (s[j] == '_' || s[j] == '#' || unicode.IsLetter(rune(s[j])) || unicode.IsDigit(rune(s[j]))) {
				j++
			}
			out = append(out, tok{"id", s[i:j]})
			i = j
		case c == '?':
			j := i + 1
			for j < len(s) && (s[j] == '_' || unicode.IsLetter(rune(s[j])) || unicode.IsDigit(rune(s[j]))) {
				j++
			}
			out = append(out, tok{"binder", s[i+1 : j]})
			i = j
		default:
			for _, op := range []string{"==>", "<=>", "::", "->", "=>", "==", "!=", "<=", ">=", "&&", "||", "++", "(", ")", "[", "]", ",", ".", "!", "<", ">", "+", "-", "*", "/", "%", ":"} {
				if strings.HasPrefix(s[i:], op) {
					out = append(out, tok{"op", op})
					i += len(op)
					goto next
				}
			}
			return nil, fmt.Errorf("unexpected character %q in %q", c, s)
		next:
		}
	}
	out = append(out, tok{"eof", ""})
	return out, nil
}

func parseExpr(s string) (*Node, error) {
	toks, err := lex(s)
	if err != nil {
		return nil, err
	}
	p := &lexer{toks: toks}
	n, err := p.parseTop()
	if err != nil {
		return nil, fmt.Errorf("%v in %q", err, s)
	}
	if p.peek().k != "eof" {
		return nil, fmt.Errorf("trailing input at %q in %q", p.peek().s, s)
	}
	return n, nil
}

func (p *lexer) peek() tok { return p.toks[p.pos] }
func (p *lexer) next() tok { t := p.toks[p.pos]; p.pos++; return t }
func (p *lexer) isOp(s string) bool {
	t := p.peek()
	return t.k == "op" && t.s == s
}
func (p *lexer) isID(s string) bool {
	t := p.peek()
	return t.k == "id" && t.s == s
}
func (p *lexer) expectOp(s string) error {
	if !p.isOp(s) {
		return fmt.Errorf("expected %q, got %q", s, p.peek().s)
	}
	p.pos++
	return nil
}

func (p *lexer) parseTop() (*Node, error) { return p.parseImpl() }

func (p *lexer) parseImpl() (*Node, error) {
	l, err := p.parseOr()
	if err != nil {
		return nil, err
	}
	if p.isOp("==>") {
		p.next()
		r, err := p.parseImpl()
		if err != nil {
			return nil, err
		}
		return &Node{Op: "bin", S: "==>", Kids: []*Node{l, r}}, nil
	}
	if p.isOp("<=>") {
		p.next()
		r, err := p.parseImpl()
		if err != nil {
			return nil, err
		}
		return &Node{Op: "bin", S: "<=>", Kids: []*Node{l, r}}, nil
	}
	return l, nil
}

func (p *lexer) parseOr() (*Node, error) {
	l, err := p.parseAnd()
	if err != nil {
		return nil, err
	}
	for p.isOp("||") {
		p.next()
		r, err := p.parseAnd()
		if err != nil {
			return nil, err
		}
		l = &Node{Op: "bin", S: "||", Kids: []*Node{l, r}}
	}
	return l, nil
}

func (p *lexer) parseAnd() (*Node, error) {
	l, err := p.parseCmp()
	if err != nil {
		return nil, err
	}
	for p.isOp("&&") {
		p.next()
		r, err := p.parseCmp()
		if err != nil {
			return nil, err
		}
		l = &Node{Op: "bin", S: "&&", Kids: []*Node{l, r}}
	}
	return l, nil
}

func (p *lexer) parseCmp() (*Node, error) {
	l, err := p.parseAdd()
	if err != nil {
		return nil, err
	}
	for _, op := range []string{"==", "!=", "<=", ">=", "<", ">"} {
		if p.isOp(op) {
			p.next()
			r, err := p.parseAdd()
			if err != nil {
				return nil, err
			}
			return &Node{Op: "bin", S: op, Kids: []*Node{l, r}}, nil
		}
	}
	return l, nil
}

func (p *lexer) parseAdd() (*Node, error) {
	l, err := p.parseMul()
	if err != nil {
		return nil, err
	}
	for p.isOp("+") || p.isOp("-") || p.isOp("++") {
		op := p.next().s
		r, err := p.parseMul()
		if err != nil {
			return nil, err
		}
		l = &Node{Op: "bin", S: op, Kids: []*Node{l, r}}
	}
	return l, nil
}

func (p *lexer) parseMul() (*Node, error) {
	l, err := p.parseUnary()
	if err != nil {
		return nil, err
	}
	for p.isOp("*") || p.isOp("/") || p.isOp("%") {
		op := p.next().s
		r, err := p.parseUnary()
		if err != nil {
			return nil, err
		}
		l = &Node{Op: "bin", S: op, Kids: []*Node{l, r}}
	}
	return l, nil
}

func (p *lexer) parseUnary() (*Node, error) {
	if p.isOp("!") {
		p.next()
		x, err := p.parseUnary()
		if err != nil {
			return nil, err
		}
		return &Node{Op: "un", S: "!", Kids: []*Node{x}}, nil
	}
	if p.isOp("-") {
		p.next()
		x, err := p.parseUnary()
		if err != nil {
			return nil, err
		}
		return &Node{Op: "un", S: "-", Kids: []*Node{x}}, nil
	}
	return p.parsePostfix()
}

var eventForms = map[string]bool{"each": true, "before": true, "after": true, "emits": true, "last": true, "first": true, "nextafter": true}

func (p *lexer) parsePostfix() (*Node, error) {
	x, err := p.parsePrimary()
	if err != nil {
		return nil, err
	}
	for {
		switch {
		case p.isOp("."):
			p.next()
			t := p.next()
			if t.k != "id" && t.k != "int" {
				return nil, fmt.Errorf("selector expected after '.'")
			}
			x = &Node{Op: "sel", S: t.s, Kids: []*Node{x}}
		case p.isOp("["):
			p.next()
			i, err := p.parseTop()
			if err != nil {
				return nil, err
			}
			if err := p.expectOp("]"); err != nil {
				return nil, err
			}
			x = &Node{Op: "index", Kids: []*Node{x, i}}
		default:
			return x, nil
		}
	}
}

func (p *lexer) parseArgs() ([]*Node, error) {
	var args []*Node
	if err := p.expectOp("("); err != nil {
		return nil, err
	}
	for !p.isOp(")") {
		a, err := p.parseTop()
		if err != nil {
			return nil, err
		}
		args = append(args, a)
		if p.isOp(",") {
			p.next()
			continue
		}
		break
	}
	if err := p.expectOp(")"); err != nil {
		return nil, err
	}
	return args, nil
}

func (p *lexer) parsePrimary() (*Node, error) {
	t := p.next()
	switch t.k {
	case "int":
		n, _ := strconv.ParseInt(t.s, 10, 64)
		return &Node{Op: "lit-int", N: n}, nil
	case "str":
		return &Node{Op: "lit-str", S: t.s}, nil
	case "binder":
		return &Node{Op: "binder", S: t.s}, nil
	case "op":
		if t.s == "(" {
			x, err := p.parseTop()
			if err != nil {
				return nil, err
			}
			if err := p.expectOp(")"); err != nil {
				return nil, err
			}
			return x, nil
		}
		return nil, fmt.Errorf("unexpected %q", t.s)
	case "id":
		switch t.s {
		case "true":
			return &Node{Op: "lit-bool", N: 1}, nil
		case "false":
			return &Node{Op: "lit-bool", N: 0}, nil
		case "nil":
			return &Node{Op: "nil"}, nil
		case "_":
			return &Node{Op: "wild"}, nil
		case "forall", "exists":
			// forall x int :: E
			v := p.next()
			ty := p.next()
			if err := p.expectOp("::"); err != nil {
				return nil, err
			}
			body, err := p.parseTop()
			if err != nil {
				return nil, err
			}
			return &Node{Op: t.s, S: v.s + ":" + ty.s, Body: body}, nil
		}
		if eventForms[t.s] {
			// <form> Kind.Name(pats) [-> (pats)] [:: E | => E]
			kind := p.next()
			if kind.k != "id" {
				return nil, fmt.Errorf("event kind expected after %s", t.s)
			}
			ks := kind.s
			for p.isOp(".") {
				p.next()
				ks += "." + p.next().s
			}
			n := &Node{Op: t.s, S: ks}
			args, err := p.parseArgs()
			if err != nil {
				return nil, err
			}
			n.Kids = args
			if p.isOp("->") {
				p.next()
				if p.isOp("(") {
					rs, err := p.parseArgs()
					if err != nil {
						return nil, err
					}
					n.Res = rs
				} else {
					r, err := p.parseUnary()
					if err != nil {
						return nil, err
					}
					n.Res = []*Node{r}
				}
			}
			if t.s == "each" {
				if err := p.expectOp("=>"); err != nil {
					return nil, err
				}
				body, err := p.parseTop()
				if err != nil {
					return nil, err
				}
				n.Body = body
			} else if p.isOp("::") {
				p.next()
				body, err := p.parseTop()
				if err != nil {
					return nil, err
				}
				n.Body = body
			}
			return n, nil
		}
		if p.isOp("(") {
			args, err := p.parseArgs()
			if err != nil {
				return nil, err
			}
			return &Node{Op: "call", S: t.s, Kids: args}, nil
		}
		return &Node{Op: "id", S: t.s}, nil
	}
	return nil, fmt.Errorf("unexpected token %q", t.s)
}
