package main

// Discharging obligations with z3 4.8.12, z3 5.1.0 (z3-new) and cvc5.

import (
	"bytes"
	"context"
	"fmt"
	"golang.org/x/tools/go/ssa"
	"os"
	"os/exec"
	"path/filepath"
	"strings"
	"sync"
	"time"
)

type Obligation struct {
	Name       string // <pkg>.<func>/<label>
	Func       string
	Label      string
	Kind       string // ensures | no_panic | loop_init | loop_preserved | lemma | cover | requires_sat
	Path       int
	Hyps       []*Term
	Goal       *Term
	ExtraDecl  []*Term // terms whose symbols must be declared too (model queries)
	NoConfirm  bool    // thorough tier: decided once (clause checked in addition to the tagged ones)
	Harness    string  // bounded_exec: name of the harness under /verif/bounded
	BoundedCmd string
	BoundedSrc string
	Bounded    bool
	Props      []string
	Trace      []string
	Notes      []string
	Prelude    string // extra SMT text (lemma files)
	RawSMT     string // complete query (lemmas)
	WantSat    bool   // cover / vacuity queries: success means sat
	PathSt     *State // the symbolic path the obligation belongs to (for replay)
	RetVal     Value  // the symbolic result on that path
	Panicked   bool
	Fn         *ssa.Function

	Status string // discharged | refuted | undecided | covered | vacuous
	Solver string
	Ms     int64
	Model  string
	Output string
}

func (o *Obligation) smt(withModel bool) string {
	if o.RawSMT != "" {
		return o.RawSMT
	}
	var b strings.Builder
	b.WriteString("(set-option :produce-models true)\n(set-logic ALL)\n")
	all := append([]*Term(nil), o.Hyps...)
	all = append(all, o.Goal)
	all = append(all, o.ExtraDecl...)
	b.WriteString(o.Prelude)
	b.WriteString(declsFor(all, nil))
	for _, h := range o.Hyps {
		fmt.Fprintf(&b, "(assert %s)\n", h)
	}
	if o.WantSat {
		fmt.Fprintf(&b, "(assert %s)\n", o.Goal)
	} else {
		fmt.Fprintf(&b, "(assert (not %s))\n", o.Goal)
	}
	b.WriteString("(check-sat)\n")
	if withModel {
		b.WriteString("(get-model)\n")
	}
	return b.String()
}

type solverSpec struct {
	name string
	argv func(file string, timeoutS int) []string
}

var solvers = []solverSpec{
	{"z3-5.1.0", func(f string, t int) []string { return []string{"z3-new", fmt.Sprintf("-T:%d", t), f} }},
	{"cvc5-1.0", func(f string, t int) []string {
		return []string{"cvc5", "--produce-models", "--strings-exp", fmt.Sprintf("--tlimit=%d", t*1000), f}
	}},
	{"z3-4.8.12", func(f string, t int) []string { return []string{"z3", fmt.Sprintf("-T:%d", t), f} }},
}

type solveResult struct {
	ans    string // sat | unsat | unknown
	out    string
	solver string
	ms     int64
}

func runSolver(ctx context.Context, s solverSpec, file string, timeoutS int) solveResult {
	argv := s.argv(file, timeoutS)
	c, cancel := context.WithTimeout(ctx, time.Duration(timeoutS+2)*time.Second)
	defer cancel()
	cmd := exec.CommandContext(c, argv[0], argv[1:]...)
	var out bytes.Buffer
	cmd.Stdout = &out
	cmd.Stderr = &out
	t0 := time.Now()
	cmd.Run()
	ms := time.Since(t0).Milliseconds()
	txt := out.String()
	first := strings.TrimSpace(strings.SplitN(txt, "\n", 2)[0])
	ans := "unknown"
	switch first {
	case "sat", "unsat":
		ans = first
	}
	if strings.Contains(txt, "(error ") && !strings.Contains(strings.SplitN(txt, "\n", 2)[0], "sat") && first != "unknown" && first != "timeout" {
		// (an "unknown" followed by the complaint that there is no model to print is an unknown)
		ans = "error"
	}
	return solveResult{ans: ans, out: txt, solver: s.name, ms: ms}
}

// decide runs z3-new first (fast path), then races the other two.
func decide(o *Obligation, dir string, id int, timeoutS int, confirm bool) {
	file := filepath.Join(dir, fmt.Sprintf("q%05d.smt2", id))
	os.WriteFile(file, []byte(o.smt(true)), 0o644)
	defer os.Remove(file)
	want := "unsat"
	other := "sat"
	if o.WantSat {
		want, other = "sat", "unsat"
	}
	quick := timeoutS
	if quick > 4 {
		quick = 4
	}
	var r solveResult
	if strings.Contains(o.RawSMT, "(check-sat)") || hasRegex(o) {
		// regular-language and free-standing string goals: cvc5 decides them in
		// well under a second where z3 runs into its timeout - race at once
		r = solveResult{ans: "unknown"}
	} else {
		r = runSolver(context.Background(), solvers[0], file, quick)
	}
	if r.ans == "error" {
		o.Status, o.Solver, o.Output = "solver-error", r.solver, firstLines(r.out, 20)
		return
	}
	if r.ans == "unknown" {
		// race all three with the full timeout
		ctx, cancel := context.WithCancel(context.Background())
		ch := make(chan solveResult, len(solvers))
		for _, s := range solvers {
			s := s
			go func() { ch <- runSolver(ctx, s, file, timeoutS) }()
		}
		got := 0
		for got < len(solvers) {
			rr := <-ch
			got++
			if rr.ans == "sat" || rr.ans == "unsat" {
				r = rr
				break
			}
			if r.ans == "unknown" {
				r.out += "\n--- " + rr.solver + ": " + firstLines(rr.out, 3)
			}
		}
		cancel()
	}
	o.Solver, o.Ms, o.Output = r.solver, r.ms, firstLines(r.out, 400)
	if keep := os.Getenv("GVC_KEEP_SMT"); keep != "" && r.ans != want {
		os.MkdirAll(keep, 0o755)
		os.WriteFile(filepath.Join(keep, fmt.Sprintf("%s-p%d.smt2", sanitize(o.Name), o.Path)), []byte(o.smt(true)+"; "+strings.ReplaceAll(r.out, "\n", "\n; ")), 0o644)
	}
	switch r.ans {
	case want:
		if o.WantSat {
			o.Status = "covered"
			o.Model = r.out
		} else {
			o.Status = "discharged"
		}
		if confirm && !o.WantSat {
			// second opinion from a different solver (thorough tier)
			for _, s := range solvers {
				if s.name == r.solver {
					continue
				}
				r2 := runSolver(context.Background(), s, file, timeoutS)
				if r2.ans == other {
					o.Status = "undecided"
					o.Output = "solvers disagree: " + r.solver + "=" + r.ans + " " + s.name + "=" + r2.ans
				}
				if r2.ans != "unknown" {
					o.Solver += "+" + s.name
					break
				}
			}
		}
	case other:
		if o.WantSat {
			o.Status = "vacuous"
		} else {
			o.Status = "refuted"
			o.Model = r.out
		}
	default:
		o.Status = "undecided"
	}
}

func firstLines(s string, n int) string {
	ls := strings.Split(s, "\n")
	if len(ls) > n {
		ls = append(ls[:n], "...")
	}
	return strings.Join(ls, "\n")
}

// batchDecide sends a batch of obligations to one z3 process (push/pop per
// obligation, per-query timeout). Only `unsat` answers are accepted from the
// batch; everything else is decided individually afterwards.
func batchDecide(batch []*Obligation, dir string, id int) {
	var all []*Term
	for _, o := range batch {
		all = append(all, o.Hyps...)
		all = append(all, o.Goal)
	}
	var b strings.Builder
	b.WriteString("(set-option :timeout 3000)\n(set-logic ALL)\n")
	b.WriteString(declsFor(all, nil))
	for _, o := range batch {
		b.WriteString("(push 1)\n")
		for _, h := range o.Hyps {
			fmt.Fprintf(&b, "(assert %s)\n", h)
		}
		fmt.Fprintf(&b, "(assert (not %s))\n(check-sat)\n(pop 1)\n", o.Goal)
	}
	file := filepath.Join(dir, fmt.Sprintf("b%05d.smt2", id))
	os.WriteFile(file, []byte(b.String()), 0o644)
	defer os.Remove(file)
	c, cancel := context.WithTimeout(context.Background(), time.Duration(4*len(batch)+10)*time.Second)
	defer cancel()
	t0 := time.Now()
	out, _ := exec.CommandContext(c, "z3-new", file).CombinedOutput()
	ms := time.Since(t0).Milliseconds()
	lines := strings.Split(strings.TrimSpace(string(out)), "\n")
	if strings.Contains(string(out), "(error") {
		return // decide individually
	}
	for i, o := range batch {
		if i < len(lines) && strings.TrimSpace(lines[i]) == "unsat" {
			o.Status, o.Solver, o.Ms = "discharged", "z3-5.1.0", ms/int64(len(batch))
		}
	}
}

func decideAll(obls []*Obligation, timeoutS int, workers int, confirm bool) (solverMs map[string]int64) {
	dir, _ := os.MkdirTemp("", "gvc-smt-")
	defer os.RemoveAll(dir)
	{
		// fast path: batches of plain validity obligations (in the thorough tier only
		// for the clauses that are checked in addition to the tagged ones)
		var plain []*Obligation
		for _, o := range obls {
			if (!confirm || o.NoConfirm) && !o.WantSat && o.RawSMT == "" && o.Prelude == "" && !hasRegex(o) {
				plain = append(plain, o)
			}
		}
		const bs = 24
		var bwg sync.WaitGroup
		bch := make(chan int)
		for w := 0; w < workers; w++ {
			bwg.Add(1)
			go func() {
				defer bwg.Done()
				for i := range bch {
					hi := i + bs
					if hi > len(plain) {
						hi = len(plain)
					}
					batchDecide(plain[i:hi], dir, i)
				}
			}()
		}
		for i := 0; i < len(plain); i += bs {
			bch <- i
		}
		close(bch)
		bwg.Wait()
	}
	var wg sync.WaitGroup
	ch := make(chan int)
	for w := 0; w < workers; w++ {
		wg.Add(1)
		go func() {
			defer wg.Done()
			for i := range ch {
				decide(obls[i], dir, i, timeoutS, confirm && !obls[i].NoConfirm)
			}
		}()
	}
	for i := range obls {
		if obls[i].Status == "" {
			ch <- i
		}
	}
	close(ch)
	wg.Wait()
	solverMs = map[string]int64{}
	for _, o := range obls {
		solverMs[o.Solver] += o.Ms
	}
	return
}

func hasRegex(o *Obligation) bool {
	if o.Goal != nil && strings.Contains(o.Goal.String(), "str.in_re") {
		return true
	}
	for _, h := range o.Hyps {
		if strings.Contains(h.String(), "str.in_re") {
			return true
		}
	}
	return false
}
