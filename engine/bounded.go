package main

// Bounded stand-ins (DESIGN 2.3): a function whose body is outside the verified
// subset ("option trusted") and whose contract names a harness ("option bounded
// <name>") is executed, on the current tree, by the test /verif/bounded/<name>.go
// (injected with go test -overlay; nothing is written to the repository). The
// harness checks the assumed ensures clauses over a finite, stated domain. A
// pass is labelled bounded and never counted as proved; a failure is a
// violation with the failing input in hand.

import (
	"context"
	"encoding/json"
	"fmt"
	"os"
	"os/exec"
	"path/filepath"
	"strings"
	"sync"
	"time"
)

func (v *Verifier) addBoundedStandIn(fc *FuncContract) {
	name := strings.Fields(fc.Options["bounded"])[0]
	for _, o := range v.Obls {
		if o.Kind == "bounded_exec" && o.Func == fc.Key {
			return
		}
	}
	v.UsedEnv["bounded stand-in for "+fc.Key+": /verif/bounded/"+name+".go exercises the assumed contract on every run ("+strings.TrimSpace(strings.TrimPrefix(fc.Options["bounded"], name))+"); labelled bounded, not counted as proved"] = true
	v.Obls = append(v.Obls, &Obligation{Name: obligationName(fc, "bounded_stand_in"), Func: fc.Key, Label: "bounded_stand_in", Kind: "bounded_exec", Goal: TTrue, Bounded: true,
		Harness: name, Notes: []string{"exercised by /verif/bounded/" + name + ".go (" + strings.TrimSpace(strings.TrimPrefix(fc.Options["bounded"], name)) + "); bounded, not counted as proved"}})
}

func runBoundedExecs(obls []*Obligation, p *Program, repo, verifDir string) {
	var wg sync.WaitGroup
	for _, o := range obls {
		if o.Kind != "bounded_exec" || o.Status != "" {
			continue
		}
		wg.Add(1)
		go func(o *Obligation) {
			defer wg.Done()
			runBoundedExec(o, p, repo, verifDir)
		}(o)
	}
	wg.Wait()
}

func runBoundedExec(o *Obligation, p *Program, repo, verifDir string) {
	t0 := time.Now()
	// the harnesses are part of the machinery (next to the binary), not of the
	// output directory a run writes to
	hdir := filepath.Join(verifDir, "bounded")
	if exe, e := os.Executable(); e == nil {
		if d := filepath.Join(filepath.Dir(filepath.Dir(exe)), "bounded"); dirExists(d) {
			hdir = d
		}
	}
	if !dirExists(hdir) {
		hdir = "/verif/bounded"
	}
	src, err := os.ReadFile(filepath.Join(hdir, o.Harness+".go"))
	if err != nil {
		o.Status = "solver-error"
		o.Output = "bounded harness missing: " + err.Error()
		return
	}
	rel := o.Func
	if i := strings.Index(rel, ":"); i >= 0 {
		rel = rel[:i]
	}
	dir, _ := os.MkdirTemp("", "gvc-bounded-")
	defer os.RemoveAll(dir)
	testFile := filepath.Join(dir, "zz_verif_bounded_test.go")
	os.WriteFile(testFile, src, 0o644)
	target := filepath.Join(repo, rel, "zz_verif_bounded_"+o.Harness+"_test.go")
	ov, _ := json.Marshal(map[string]interface{}{"Replace": map[string]string{target: testFile}})
	ovFile := filepath.Join(dir, "overlay.json")
	os.WriteFile(ovFile, ov, 0o644)
	ctx, cancel := context.WithTimeout(context.Background(), 300*time.Second)
	defer cancel()
	pkg := "./" + rel
	if rel == "" {
		pkg = "."
	}
	cmd := exec.CommandContext(ctx, "go", "test", "-tags", "verif", "-overlay", ovFile, "-vet=off", "-count=1", "-timeout", "240s", "-run", "TestVerifBounded$", pkg)
	cmd.Dir = repo
	cmd.Env = append(os.Environ(), "GOFLAGS=-mod=mod", "GOPROXY=off", "GOSUMDB=off", "GOTOOLCHAIN=local")
	out, _ := cmd.CombinedOutput()
	txt := string(out)
	o.Ms = time.Since(t0).Milliseconds()
	o.Solver = "go test (bounded)"
	o.Output = firstLines(txt, 40)
	o.BoundedCmd = strings.Join(cmd.Args, " ")
	o.BoundedSrc = string(src)
	switch {
	case strings.Contains(txt, "VERIF-BOUNDED-FAIL"):
		o.Status = "refuted"
		o.Goal = TFalse
	case strings.HasPrefix(strings.TrimSpace(lastLine(txt)), "ok"):
		o.Status = "discharged"
	default:
		// build failure or crash of the harness: the stand-in did not run
		o.Status = "solver-error"
	}
	_ = fmt.Sprint
}

func lastLine(s string) string {
	ls := strings.Split(strings.TrimSpace(s), "\n")
	return ls[len(ls)-1]
}

func dirExists(d string) bool {
	st, err := os.Stat(d)
	return err == nil && st.IsDir()
}
