package main

import (
	"fmt"
	"go/token"
	"go/types"
	"os"
	"sort"
	"strings"

	"golang.org/x/tools/go/packages"
	"golang.org/x/tools/go/ssa"
	"golang.org/x/tools/go/ssa/ssautil"
)

type Program struct {
	Dir          string
	Pkgs         []*packages.Package
	SSA          *ssa.Program
	contSumm     map[*ssa.Function]map[int]string
	Fset         *token.FileSet
	Module       string
	Funcs        map[string]*ssa.Function // key -> function (see funcKey)
	ByPkg        map[string]*ssa.Package
	UserFields   map[string]string
	GlobalFuncs  map[string]*ssa.Function // package-level func variables initialised to a function
	GlobalConsts map[string]*ssa.Const    // package-level variables (and struct fields) initialised to constants
}

func LoadProgram(dir string, tags string) (*Program, error) {
	cfg := &packages.Config{
		Mode:       packages.LoadAllSyntax | packages.NeedModule,
		Dir:        dir,
		Tests:      false,
		BuildFlags: []string{"-tags=" + tags},
		Env:        append(os.Environ(), "GOFLAGS=-mod=mod", "GOPROXY=off", "GOSUMDB=off", "GOTOOLCHAIN=local"),
	}
	pkgs, err := packages.Load(cfg, "./...")
	if err != nil {
		return nil, err
	}
	var errs []string
	packages.Visit(pkgs, nil, func(p *packages.Package) {
		for _, e := range p.Errors {
			errs = append(errs, e.Error())
		}
	})
	if len(errs) > 0 {
		return nil, fmt.Errorf("load errors: %s", strings.Join(errs, "; "))
	}
	prog, _ := ssautil.AllPackages(pkgs, ssa.GlobalDebug)
	prog.Build()
	p := &Program{Dir: dir, Pkgs: pkgs, SSA: prog, Fset: prog.Fset, Funcs: map[string]*ssa.Function{}, ByPkg: map[string]*ssa.Package{}}
	for _, pk := range pkgs {
		if pk.Module != nil {
			p.Module = pk.Module.Path
		}
	}
	for _, pk := range pkgs {
		sp := prog.Package(pk.Types)
		if sp == nil {
			continue
		}
		p.ByPkg[pk.PkgPath] = sp
	}
	p.GlobalFuncs = map[string]*ssa.Function{}
	p.GlobalConsts = map[string]*ssa.Const{}
	for _, sp := range p.ByPkg {
		if !strings.HasPrefix(sp.Pkg.Path(), p.Module) {
			continue
		}
		if init := sp.Func("init"); init != nil {
			for _, b := range init.Blocks {
				for _, ins := range b.Instrs {
					if s, ok := ins.(*ssa.Store); ok {
						if fa, ok := s.Addr.(*ssa.FieldAddr); ok {
							if g, ok := fa.X.(*ssa.Global); ok {
								if c, ok := s.Val.(*ssa.Const); ok {
									st := g.Type().(*types.Pointer).Elem().Underlying().(*types.Struct)
									p.GlobalConsts["glob!"+g.Pkg.Pkg.Path()+"."+g.Name()+"."+st.Field(fa.Field).Name()] = c
								}
							}
						}
						if g, ok := s.Addr.(*ssa.Global); ok {
							if c, ok := s.Val.(*ssa.Const); ok {
								p.GlobalConsts["glob!"+g.Pkg.Pkg.Path()+"."+g.Name()] = c
							}
							switch f := s.Val.(type) {
							case *ssa.Function:
								p.GlobalFuncs["glob!"+g.Pkg.Pkg.Path()+"."+g.Name()] = f
							case *ssa.ChangeType:
								if fn, ok := f.X.(*ssa.Function); ok {
									p.GlobalFuncs["glob!"+g.Pkg.Pkg.Path()+"."+g.Name()] = fn
								}
							}
						}
					}
				}
			}
		}
	}
	for fn := range ssautil.AllFunctions(prog) {
		if fn.Pkg == nil || !p.inRepo(fn) {
			continue
		}
		p.Funcs[p.funcKey(fn)] = fn
	}
	return p, nil
}

func (p *Program) inRepo(fn *ssa.Function) bool {
	pkg := fn.Pkg
	if pkg == nil {
		if fn.Parent() != nil {
			return p.inRepo(fn.Parent())
		}
		if o := fn.Origin(); o != nil {
			return p.inRepo(o)
		}
		// wrapper / bound method: use receiver object's package
		if fn.Object() != nil && fn.Object().Pkg() != nil {
			return strings.HasPrefix(fn.Object().Pkg().Path(), p.Module)
		}
		return false
	}
	return strings.HasPrefix(pkg.Pkg.Path(), p.Module)
}

// relPkg returns the package path relative to the module ("" for the root).
func (p *Program) relPkg(path string) string {
	r := strings.TrimPrefix(path, p.Module)
	return strings.TrimPrefix(r, "/")
}

// funcKey: "<relpkg>:<Name>" | "<relpkg>:(*T).M" | "<relpkg>:(T).M" |
// closures "<parentkey>#<n>" with n the ordinal among the parent's anonymous
// functions (1-based, source order), nested "#1#2".
func (p *Program) funcKey(fn *ssa.Function) string {
	if fn.Parent() != nil {
		par := fn.Parent()
		idx := 0
		for i, a := range par.AnonFuncs {
			if a == fn {
				idx = i + 1
			}
		}
		return fmt.Sprintf("%s#%d", p.funcKey(par), idx)
	}
	rel := ""
	if fn.Pkg != nil {
		rel = p.relPkg(fn.Pkg.Pkg.Path())
	}
	name := fn.Name()
	if recv := fn.Signature.Recv(); recv != nil {
		t := recv.Type()
		ptr := ""
		if pt, ok := t.(*types.Pointer); ok {
			ptr = "*"
			t = pt.Elem()
		}
		tn := t.String()
		if n, ok := t.(*types.Named); ok {
			tn = n.Obj().Name()
		}
		name = fmt.Sprintf("(%s%s).%s", ptr, tn, fn.Name())
	}
	return rel + ":" + name
}

func (p *Program) lookupMethod(dyn types.Type, m *types.Func) *ssa.Function {
	ms := p.SSA.MethodSets.MethodSet(dyn)
	sel := ms.Lookup(m.Pkg(), m.Name())
	if sel == nil {
		return nil
	}
	fn := p.SSA.MethodValue(sel)
	if fn == nil || fn.Blocks == nil {
		return nil
	}
	return fn
}

func (p *Program) sortedFuncKeys() []string {
	ks := make([]string, 0, len(p.Funcs))
	for k := range p.Funcs {
		ks = append(ks, k)
	}
	sort.Strings(ks)
	return ks
}
