package main

// Making a solver model realisable on the real code (DESIGN 5.8).
//
// The verification conditions treat SHA-512, base64 and the clock as
// uninterpreted functions / free readings, so a model is a world in which the
// hash of the submitted token happens to equal whatever the model chose for
// the stored verifier, and in which "now" is some integer. Three adapters turn
// such a model into inputs the real code accepts:
//
//   - crypto is computed forward: every environment-provided input whose model
//     value equals the model value of a term built from sha512 / base64 is set
//     to the REAL value of that term (computed from the inputs the model chose),
//     and an input that the code base64-decodes gets the real encoding of the
//     bytes that the decoded value must have;
//   - time is made relative: the model query is repeated with the first clock
//     reading anchored at 0, successive readings at most 100 ms apart and every
//     comparison that involves a clock reading strengthened by a margin of two
//     seconds; the harness then adds (real now - 0) to every time-valued input;
//   - byte strings travel through the JSON script as Latin-1.

import (
	"crypto/sha512"
	"encoding/base64"
	"fmt"
	"os"
	"sort"
	"strings"
)

func isCryptoOp(op string) bool {
	op = strings.Trim(op, "|")
	return op == "sha512" || strings.HasPrefix(op, "b64enc!") || strings.HasPrefix(op, "b64dec!")
}

func containsOp(t *Term, pred func(op string) bool) bool {
	if t.Sym && pred(t.Op) {
		return true
	}
	for _, a := range t.Args {
		if containsOp(a, pred) {
			return true
		}
	}
	return false
}

// collectCrypto gathers every closed term headed by a crypto function.
func collectCrypto(t *Term, into map[string]*Term) {
	if strings.HasPrefix(t.Op, "forall") || strings.HasPrefix(t.Op, "exists") {
		return
	}
	if t.Sym && isCryptoOp(t.Op) && !strings.Contains(t.String(), "q!") {
		into[t.String()] = t
	}
	for _, a := range t.Args {
		collectCrypto(a, into)
	}
}

type concretizer struct {
	mv   modelVals
	over map[string]interface{}
}

// real computes the value a term has on the real code, given the (possibly
// overridden) model values of its leaves. ok=false: not computable.
func (c *concretizer) real(t *Term) (string, bool) {
	if v, has := c.over[t.String()]; has {
		s, ok := v.(string)
		return s, ok
	}
	if s, ok := t.StrVal(); ok {
		return s, true
	}
	op := strings.Trim(t.Op, "|")
	switch {
	case t.Sym && op == "sha512" && len(t.Args) == 1:
		if a, ok := c.real(t.Args[0]); ok {
			h := sha512.Sum512([]byte(a))
			return string(h[:]), true
		}
	case t.Sym && strings.HasPrefix(op, "b64enc!") && len(t.Args) == 1:
		if a, ok := c.real(t.Args[0]); ok {
			if strings.HasSuffix(op, "url") {
				return base64.URLEncoding.EncodeToString([]byte(a)), true
			}
			return base64.StdEncoding.EncodeToString([]byte(a)), true
		}
	case t.Sym && strings.HasPrefix(op, "b64dec!") && len(t.Args) == 1:
		// the decoded value is what the model says it is (the input is then
		// re-encoded to match), unless the argument is itself computable
		if containsOp(t.Args[0], func(o string) bool { return isCryptoOp(o) }) {
			if a, ok := c.real(t.Args[0]); ok {
				var b []byte
				var err error
				if strings.HasSuffix(op, "url") {
					b, err = base64.URLEncoding.DecodeString(a)
				} else {
					b, err = base64.StdEncoding.DecodeString(a)
				}
				if err == nil {
					return string(b), true
				}
			}
		}
	case !t.Sym && t.Op == "str.++":
		var b strings.Builder
		for _, a := range t.Args {
			s, ok := c.real(a)
			if !ok {
				return "", false
			}
			b.WriteString(s)
		}
		return b.String(), true
	case !t.Sym && t.Op == "str.substr" && len(t.Args) == 3:
		s, ok := c.real(t.Args[0])
		off, ok1 := c.intOf(t.Args[1])
		n, ok2 := c.intOf(t.Args[2])
		if ok && ok1 && ok2 {
			if off < 0 || off >= int64(len(s)) || n <= 0 {
				return "", true
			}
			end := off + n
			if end > int64(len(s)) {
				end = int64(len(s))
			}
			return s[off:end], true
		}
	case !t.Sym && t.Op == "ite" && len(t.Args) == 3:
		if b, ok := c.mv.of(t.Args[0]).(bool); ok {
			if b {
				return c.real(t.Args[1])
			}
			return c.real(t.Args[2])
		}
	}
	if v, ok := c.mv.of(t).(string); ok {
		return v, true
	}
	return "", false
}

func (c *concretizer) intOf(t *Term) (int64, bool) {
	if n, ok := t.IntVal(); ok {
		return n, true
	}
	if v, ok := c.mv[t.String()].(int64); ok {
		return v, true
	}
	if !t.Sym {
		switch {
		case t.Op == "str.len" && len(t.Args) == 1:
			if s, ok := c.real(t.Args[0]); ok {
				return int64(len(s)), true
			}
		case t.Op == "+" || t.Op == "*":
			acc := int64(0)
			if t.Op == "*" {
				acc = 1
			}
			for _, a := range t.Args {
				v, ok := c.intOf(a)
				if !ok {
					return 0, false
				}
				if t.Op == "+" {
					acc += v
				} else {
					acc *= v
				}
			}
			return acc, true
		case t.Op == "-" && len(t.Args) == 1:
			if v, ok := c.intOf(t.Args[0]); ok {
				return -v, true
			}
		case t.Op == "-" && len(t.Args) >= 2:
			v, ok := c.intOf(t.Args[0])
			if !ok {
				return 0, false
			}
			for _, a := range t.Args[1:] {
				w, ok := c.intOf(a)
				if !ok {
					return 0, false
				}
				v -= w
			}
			return v, true
		case t.Op == "ite" && len(t.Args) == 3:
			if b, ok := c.mv.of(t.Args[0]).(bool); ok {
				if b {
					return c.intOf(t.Args[1])
				}
				return c.intOf(t.Args[2])
			}
		}
	}
	if v, ok := c.mv.of(t).(int64); ok {
		return v, true
	}
	return 0, false
}

// isInputLeaf: a term whose value the harness provides (request, session,
// cookie, record field, submitted value).
func isInputLeaf(t *Term) bool {
	if t.Op == "select" && !t.Sym && len(t.Args) == 2 && t.Args[0].Sym && strings.HasPrefix(t.Args[0].Op, "uh0!") {
		return true
	}
	if !t.Sym {
		return false
	}
	op := strings.Trim(t.Op, "|")
	return op == "cs_get" || op == "form_value" || strings.HasPrefix(op, "val!Get") || strings.HasPrefix(op, "unbox!String")
}

// splitElem recognises select(str_split(list, sep), idx).
func splitElem(t *Term) (list, sep, idx *Term, ok bool) {
	if t.Op != "select" || t.Sym || len(t.Args) != 2 {
		return
	}
	sp := t.Args[0]
	if !sp.Sym || strings.Trim(sp.Op, "|") != "str_split" || len(sp.Args) != 2 {
		return
	}
	return sp.Args[0], sp.Args[1], t.Args[1], true
}

func stripIte(t *Term) *Term {
	for t.Op == "ite" && !t.Sym && len(t.Args) == 3 { // ite(state==0, "", cs_get(..))
		t = t.Args[2]
	}
	return t
}

// pathEqualities: the string equalities that hold on the refuted path
// (top-level conjuncts of the hypotheses).
func pathEqualities(o *Obligation) [][2]*Term {
	var out [][2]*Term
	var walk func(t *Term)
	walk = func(t *Term) {
		switch {
		case !t.Sym && t.Op == "and":
			for _, a := range t.Args {
				walk(a)
			}
		case !t.Sym && t.Op == "=" && len(t.Args) == 2 && t.Args[0].S == SStr:
			out = append(out, [2]*Term{t.Args[0], t.Args[1]}, [2]*Term{t.Args[1], t.Args[0]})
		}
	}
	for _, h := range o.Hyps {
		walk(h)
	}
	return out
}

// reconcileCrypto rewrites the model values of inputs so that the crypto
// relations of the refuted path hold for the REAL functions: for every path
// equality  b64dec(X) == T  or  X == T  with X an input and T a term built
// from sha512 / base64, X gets the real value (of the encoding) of T.
func reconcileCrypto(o *Obligation, mv modelVals, ts []*Term, crypto map[string]*Term) []string {
	c := &concretizer{mv: mv, over: map[string]interface{}{}}
	var log []string
	eqs := pathEqualities(o)
	encode := func(enc, raw string) string {
		if enc == "url" {
			return base64.URLEncoding.EncodeToString([]byte(raw))
		}
		return base64.StdEncoding.EncodeToString([]byte(raw))
	}
	var ckeys []string
	for k := range crypto {
		ckeys = append(ckeys, k)
	}
	sort.Strings(ckeys)
	isCrypto := func(t *Term) bool { return containsOp(t, isCryptoOp) }
	for round := 0; round < 3; round++ {
		// 1. every input that the code decodes gets the real encoding of the bytes
		// the decoded value must have (the model's bytes, unless a path equality
		// ties them to a computable term)
		for _, k := range ckeys {
			d := crypto[k]
			op := strings.Trim(d.Op, "|")
			if !strings.HasPrefix(op, "b64dec!") {
				continue
			}
			in := stripIte(d.Args[0])
			enc := op[len("b64dec!"):]
			if list, sep, idx, ok := splitElem(in); ok && isInputLeaf(list) {
				// an element of a separated list kept in one input (the one-time
				// passwords of a record): the list gets the model's length, the real
				// encoding at the model's index and harmless fillers elsewhere
				sepS, _ := sep.StrVal()
				n, _ := mv.of(App("str_split_len", SInt, list, sep)).(int64)
				i, iok := c.intOf(idx)
				if os.Getenv("GVC_DEBUG_REPLAY") != "" {
					fmt.Fprintf(os.Stderr, "splitElem: list=%s n=%d idx=%s i=%d ok=%v\n", list, n, idx, i, iok)
				}
				if n < 1 || n > 64 || !iok || i < 0 || i >= n {
					continue
				}
				target, _ := mv.of(d).(string)
				for _, e := range eqs {
					if e[0].String() == d.String() && isCrypto(e[1]) && !strings.Contains(e[1].String(), d.String()) {
						if r, ok := c.real(e[1]); ok {
							target = r
							break
						}
					}
				}
				var parts []string
				for k := int64(0); k < n; k++ {
					if k == i {
						parts = append(parts, encode(enc, target))
					} else {
						parts = append(parts, encode(enc, fmt.Sprintf("filler-%d", k)))
					}
				}
				val := strings.Join(parts, sepS)
				c.over[list.String()] = val
				mv[list.String()] = val
				if round == 0 {
					log = append(log, fmt.Sprintf("element %d of %s := real encoding of what the path equates it with", i, list))
				}
				continue
			}
			if !isInputLeaf(in) {
				continue
			}
			okT := App("b64ok!"+enc, SBool, d.Args[0])
			if v, has := mv[okT.String()]; has {
				if b, _ := v.(bool); !b {
					mv[in.String()] = "%%%not-base64%%%"
					continue
				}
			}
			target, _ := mv.of(d).(string)
			for _, e := range eqs {
				if e[0].String() != d.String() || !isCrypto(e[1]) || strings.Contains(e[1].String(), d.String()) {
					continue
				}
				if r, ok := c.real(e[1]); ok {
					target = r
					if round == 0 {
						log = append(log, fmt.Sprintf("bytes decoded from %s := real value of %s", in, e[1]))
					}
					break
				}
			}
			c.over[d.String()] = target
			c.over[in.String()] = encode(enc, target)
			mv[in.String()] = encode(enc, target)
		}
		// 2. inputs that the path equates with a computable term
		for _, e := range eqs {
			x := stripIte(e[0])
			if !isInputLeaf(x) || !isCrypto(e[1]) || strings.Contains(e[1].String(), x.String()) {
				continue
			}
			if r, ok := c.real(e[1]); ok {
				c.over[x.String()] = r
				mv[x.String()] = r
				if round == 0 {
					log = append(log, fmt.Sprintf("%s := real value of %s", x, e[1]))
				}
			}
		}
	}
	return log
}

// ---- time ---------------------------------------------------------------------------

func isNowConst(t *Term) bool {
	return t.Sym && len(t.Args) == 0 && strings.HasPrefix(strings.Trim(t.Op, "|"), "now!")
}

func mentionsNow(t *Term) bool {
	if isNowConst(t) {
		return true
	}
	for _, a := range t.Args {
		if mentionsNow(a) {
			return true
		}
	}
	return false
}

func mentionsOtherSymbol(t *Term) bool {
	if t.Lit {
		return false
	}
	if len(t.Args) == 0 {
		return !isNowConst(t)
	}
	if t.Sym {
		return true // an application (select, accessor, ...)
	}
	for _, a := range t.Args {
		if mentionsOtherSymbol(a) {
			return true
		}
	}
	return false
}

// timeAsserts: extra constraints for the model query that make the clock
// readings realisable (see the file comment). nows are the readings in order.
func timeAsserts(o *Obligation, nows []*Term) string {
	if len(nows) == 0 {
		return ""
	}
	var b strings.Builder
	fmt.Fprintf(&b, "(assert (= %s 0))\n", nows[0])
	for i := 1; i < len(nows); i++ {
		fmt.Fprintf(&b, "(assert (<= (- %s %s) 100000000))\n", nows[i], nows[i-1])
	}
	seen := map[string]bool{}
	var atom func(t *Term)
	atom = func(t *Term) {
		switch {
		case !t.Sym && t.Op == "and":
			for _, a := range t.Args {
				atom(a)
			}
		case !t.Sym && t.Op == "not" && len(t.Args) == 1:
			atom(t.Args[0])
		case !t.Sym && (t.Op == "<" || t.Op == "<=" || t.Op == ">" || t.Op == ">=") && len(t.Args) == 2 && mentionsNow(t) && mentionsOtherSymbol(t):
			k := t.Args[0].String() + "|" + t.Args[1].String()
			if seen[k] {
				return
			}
			seen[k] = true
			fmt.Fprintf(&b, "(assert (or (<= (+ %s 2000000000) %s) (<= (+ %s 2000000000) %s)))\n", t.Args[0], t.Args[1], t.Args[1], t.Args[0])
		}
	}
	for _, h := range o.Hyps {
		atom(h)
	}
	return b.String()
}

// latin1: a byte string as a string of runes (one per byte), so that it
// survives JSON; the harness converts back.
func latin1(s string) string {
	var b strings.Builder
	for i := 0; i < len(s); i++ {
		b.WriteRune(rune(s[i]))
	}
	return b.String()
}

func latin1Deep(v interface{}) interface{} {
	switch x := v.(type) {
	case string:
		return latin1(x)
	case map[string]interface{}:
		m := map[string]interface{}{}
		for k, e := range x {
			m[k] = latin1Deep(e)
		}
		return m
	case map[string]string:
		m := map[string]string{}
		for k, e := range x {
			m[k] = latin1(e)
		}
		return m
	case map[string]map[string]interface{}:
		m := map[string]map[string]interface{}{}
		for k, e := range x {
			m[k] = latin1Deep(e).(map[string]interface{})
		}
		return m
	case []map[string]interface{}:
		var out []map[string]interface{}
		for _, e := range x {
			out = append(out, latin1Deep(e).(map[string]interface{}))
		}
		return out
	case []interface{}:
		var out []interface{}
		for _, e := range x {
			out = append(out, latin1Deep(e))
		}
		return out
	case *string:
		if x == nil {
			return x
		}
		s := latin1(*x)
		return &s
	}
	return v
}
