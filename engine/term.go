package main

// SMT term layer. Terms are immutable trees with a cached SMT-LIB rendering.
// A light simplifier runs at construction time (constant folding only); it is
// an optimisation for path pruning and never the deciding step of an
// obligation: obligations are always sent to the solvers.

import (
	"fmt"
	"sort"
	"strconv"
	"strings"
	"sync"
)

const (
	SBool = "Bool"
	SInt  = "Int"
	SStr  = "String"
)

func SArr(idx, el string) string { return "(Array " + idx + " " + el + ")" }

type Term struct {
	Op   string // operator / symbol / literal text
	Args []*Term
	S    string // sort
	Lit  bool   // literal constant (true/false/int/string)
	Sym  bool   // uninterpreted symbol application (needs a declaration)
	str  string
}

func (t *Term) String() string {
	if t.str != "" {
		return t.str
	}
	if len(t.Args) == 0 {
		t.str = t.Op
		return t.str
	}
	var b strings.Builder
	b.WriteByte('(')
	b.WriteString(t.Op)
	for _, a := range t.Args {
		b.WriteByte(' ')
		b.WriteString(a.String())
	}
	b.WriteByte(')')
	t.str = b.String()
	return t.str
}

var (
	TTrue  = &Term{Op: "true", S: SBool, Lit: true}
	TFalse = &Term{Op: "false", S: SBool, Lit: true}
)

func BoolLit(b bool) *Term {
	if b {
		return TTrue
	}
	return TFalse
}

func IntLit(n int64) *Term {
	if n < 0 {
		return &Term{Op: "(- " + strconv.FormatInt(-n, 10) + ")", S: SInt, Lit: true}
	}
	return &Term{Op: strconv.FormatInt(n, 10), S: SInt, Lit: true}
}

func (t *Term) IntVal() (int64, bool) {
	if !t.Lit || t.S != SInt {
		return 0, false
	}
	s := t.Op
	if strings.HasPrefix(s, "(- ") {
		n, err := strconv.ParseInt(s[3:len(s)-1], 10, 64)
		return -n, err == nil
	}
	n, err := strconv.ParseInt(s, 10, 64)
	return n, err == nil
}

// StrLit renders a Go string (bytes) as an SMT-LIB string literal; every byte
// is one SMT character (code < 256).
func StrLit(s string) *Term {
	var b strings.Builder
	b.WriteByte('"')
	for i := 0; i < len(s); i++ {
		c := s[i]
		switch {
		case c == '"':
			b.WriteString(`""`)
		case c == '\\':
			b.WriteString(`\u{5c}`)
		case c >= 0x20 && c < 0x7f:
			b.WriteByte(c)
		default:
			fmt.Fprintf(&b, `\u{%x}`, c)
		}
	}
	b.WriteByte('"')
	return &Term{Op: b.String(), S: SStr, Lit: true}
}

// StrVal decodes a literal produced by StrLit.
func (t *Term) StrVal() (string, bool) {
	if !t.Lit || t.S != SStr {
		return "", false
	}
	return decodeSMTString(t.Op)
}

func decodeSMTString(lit string) (string, bool) {
	if len(lit) < 2 || lit[0] != '"' || lit[len(lit)-1] != '"' {
		return "", false
	}
	s := lit[1 : len(lit)-1]
	var b []byte
	for i := 0; i < len(s); i++ {
		if s[i] == '"' && i+1 < len(s) && s[i+1] == '"' {
			b = append(b, '"')
			i++
			continue
		}
		if s[i] == '\\' && i+2 < len(s) && s[i+1] == 'u' {
			// \u{h..} or \uhhhh
			if s[i+2] == '{' {
				j := strings.IndexByte(s[i:], '}')
				if j > 0 {
					n, err := strconv.ParseUint(s[i+3:i+j], 16, 32)
					if err == nil {
						if n < 256 {
							b = append(b, byte(n))
						} else {
							b = append(b, []byte(string(rune(n)))...)
						}
						i += j
						continue
					}
				}
			} else if i+5 < len(s) {
				n, err := strconv.ParseUint(s[i+2:i+6], 16, 32)
				if err == nil {
					if n < 256 {
						b = append(b, byte(n))
					} else {
						b = append(b, []byte(string(rune(n)))...)
					}
					i += 5
					continue
				}
			}
		}
		if s[i] == '\\' && i+1 < len(s) && s[i+1] == 'x' && i+3 < len(s) {
			n, err := strconv.ParseUint(s[i+2:i+4], 16, 8)
			if err == nil {
				b = append(b, byte(n))
				i += 3
				continue
			}
		}
		b = append(b, s[i])
	}
	return string(b), true
}

// ---- symbol table (declarations collected while building terms) -----------

type Decl struct {
	Name string
	Args []string
	Ret  string
}

type Symtab struct {
	decls map[string]*Decl
}

func NewSymtab() *Symtab { return &Symtab{decls: map[string]*Decl{}} }

var gsym = NewSymtab()
var gsymMu sync.Mutex

func smtName(s string) string {
	// |...| quoting for anything unusual
	ok := true
	for _, c := range s {
		if !(c >= 'a' && c <= 'z' || c >= 'A' && c <= 'Z' || c >= '0' && c <= '9' || strings.ContainsRune("_.!$-", c)) {
			ok = false
		}
	}
	if ok && s != "" && !(s[0] >= '0' && s[0] <= '9') {
		return s
	}
	return "|" + strings.ReplaceAll(s, "|", "/") + "|"
}

// App builds an application of an uninterpreted function (or constant).
func App(name string, ret string, args ...*Term) *Term {
	n := smtName(name)
	gsymMu.Lock()
	defer gsymMu.Unlock()
	d, ok := gsym.decls[n]
	as := make([]string, len(args))
	for i, a := range args {
		if a == nil {
			panic("nil arg to " + name)
		}
		as[i] = a.S
	}
	if !ok {
		gsym.decls[n] = &Decl{Name: n, Args: as, Ret: ret}
	} else {
		if d.Ret != ret || strings.Join(d.Args, ",") != strings.Join(as, ",") {
			panic(fmt.Sprintf("symbol %s redeclared: %v->%s vs %v->%s", n, d.Args, d.Ret, as, ret))
		}
	}
	return &Term{Op: n, Args: args, S: ret, Sym: true}
}

func Const(name, sort string) *Term { return App(name, sort) }

// ---- builtin constructors with constant folding ---------------------------

func Not(a *Term) *Term {
	if a == TTrue {
		return TFalse
	}
	if a == TFalse {
		return TTrue
	}
	if a.Op == "not" && len(a.Args) == 1 {
		return a.Args[0]
	}
	return &Term{Op: "not", Args: []*Term{a}, S: SBool}
}

func And(xs ...*Term) *Term {
	var out []*Term
	seen := map[string]bool{}
	for _, x := range xs {
		if x == TTrue {
			continue
		}
		if x == TFalse {
			return TFalse
		}
		if x.Op == "and" && !x.Sym {
			for _, y := range x.Args {
				if !seen[y.String()] {
					seen[y.String()] = true
					out = append(out, y)
				}
			}
			continue
		}
		if !seen[x.String()] {
			seen[x.String()] = true
			out = append(out, x)
		}
	}
	for _, x := range out {
		if seen[Not(x).String()] {
			return TFalse
		}
	}
	if len(out) == 0 {
		return TTrue
	}
	if len(out) == 1 {
		return out[0]
	}
	return &Term{Op: "and", Args: out, S: SBool}
}

func Or(xs ...*Term) *Term {
	var out []*Term
	seen := map[string]bool{}
	for _, x := range xs {
		if x == TFalse {
			continue
		}
		if x == TTrue {
			return TTrue
		}
		if x.Op == "or" && !x.Sym {
			for _, y := range x.Args {
				if !seen[y.String()] {
					seen[y.String()] = true
					out = append(out, y)
				}
			}
			continue
		}
		if !seen[x.String()] {
			seen[x.String()] = true
			out = append(out, x)
		}
	}
	for _, x := range out {
		if seen[Not(x).String()] {
			return TTrue
		}
	}
	if len(out) == 0 {
		return TFalse
	}
	if len(out) == 1 {
		return out[0]
	}
	return &Term{Op: "or", Args: out, S: SBool}
}

func Implies(a, b *Term) *Term { return Or(Not(a), b) }

func Ite(c, a, b *Term) *Term {
	if c == TTrue {
		return a
	}
	if c == TFalse {
		return b
	}
	if a.String() == b.String() {
		return a
	}
	if a.S != b.S {
		panic(fmt.Sprintf("ite sorts differ: %s:%s vs %s:%s", a, a.S, b, b.S))
	}
	if a.S == SBool {
		return Or(And(c, a), And(Not(c), b))
	}
	return &Term{Op: "ite", Args: []*Term{c, a, b}, S: a.S}
}

func Eq(a, b *Term) *Term {
	if a.S != b.S {
		panic(fmt.Sprintf("eq sorts differ: %s:%s vs %s:%s", a, a.S, b, b.S))
	}
	if a.String() == b.String() {
		return TTrue
	}
	if a.S == SInt {
		if d, ok := constDiff(a, b); ok {
			return BoolLit(d == 0)
		}
	}
	if a.Lit && b.Lit {
		// distinct literal renderings of the same sort are distinct values
		// (ints are canonical; strings are canonical through StrLit)
		return TFalse
	}
	if a.S == SBool {
		if a == TTrue {
			return b
		}
		if b == TTrue {
			return a
		}
		if a == TFalse {
			return Not(b)
		}
		if b == TFalse {
			return Not(a)
		}
	}
	// ite with literal branches against a literal
	if b.Lit && a.Op == "ite" && !a.Sym {
		return Ite(a.Args[0], Eq(a.Args[1], b), Eq(a.Args[2], b))
	}
	if a.Lit && b.Op == "ite" && !b.Sym {
		return Ite(b.Args[0], Eq(a, b.Args[1]), Eq(a, b.Args[2]))
	}
	// len(s) == 0  -> s == ""
	if a.S == SStr {
		// (str.++ ...) vs literal: leave to solver
	}
	// canonical order
	if a.String() > b.String() {
		a, b = b, a
	}
	return &Term{Op: "=", Args: []*Term{a, b}, S: SBool}
}

func Neq(a, b *Term) *Term { return Not(Eq(a, b)) }

// linear normal form: sum of coef*atom + const
type linForm struct {
	coef  map[string]int64
	atom  map[string]*Term
	konst int64
}

func linOf(t *Term, scale int64, into *linForm) bool {
	if n, ok := t.IntVal(); ok {
		into.konst += scale * n
		return true
	}
	if !t.Sym && !t.Lit && len(t.Args) == 2 {
		switch t.Op {
		case "+":
			return linOf(t.Args[0], scale, into) && linOf(t.Args[1], scale, into)
		case "-":
			return linOf(t.Args[0], scale, into) && linOf(t.Args[1], -scale, into)
		case "*":
			if n, ok := t.Args[0].IntVal(); ok {
				return linOf(t.Args[1], scale*n, into)
			}
			if n, ok := t.Args[1].IntVal(); ok {
				return linOf(t.Args[0], scale*n, into)
			}
		}
	}
	if !t.Sym && !t.Lit && t.Op == "+" && len(t.Args) > 2 {
		for _, a := range t.Args {
			if !linOf(a, scale, into) {
				return false
			}
		}
		return true
	}
	k := t.String()
	into.coef[k] += scale
	into.atom[k] = t
	return true
}

func linNorm(t *Term) *linForm {
	lf := &linForm{coef: map[string]int64{}, atom: map[string]*Term{}}
	if !linOf(t, 1, lf) {
		return nil
	}
	return lf
}

func (lf *linForm) term() *Term {
	var keys []string
	for k, c := range lf.coef {
		if c != 0 {
			keys = append(keys, k)
		}
	}
	sort.Strings(keys)
	var parts []*Term
	for _, k := range keys {
		c := lf.coef[k]
		if c == 1 {
			parts = append(parts, lf.atom[k])
		} else {
			parts = append(parts, &Term{Op: "*", Args: []*Term{IntLit(c), lf.atom[k]}, S: SInt})
		}
	}
	if lf.konst != 0 || len(parts) == 0 {
		parts = append(parts, IntLit(lf.konst))
	}
	if len(parts) == 1 {
		return parts[0]
	}
	return &Term{Op: "+", Args: parts, S: SInt}
}

// constDiff returns (a-b, true) when a-b is a literal constant.
func constDiff(a, b *Term) (int64, bool) {
	lf := &linForm{coef: map[string]int64{}, atom: map[string]*Term{}}
	if !linOf(a, 1, lf) || !linOf(b, -1, lf) {
		return 0, false
	}
	for _, c := range lf.coef {
		if c != 0 {
			return 0, false
		}
	}
	return lf.konst, true
}

func arith(op string, a, b *Term) *Term {
	if op == "+" || op == "-" {
		lf := &linForm{coef: map[string]int64{}, atom: map[string]*Term{}}
		s := int64(1)
		if op == "-" {
			s = -1
		}
		if linOf(a, 1, lf) && linOf(b, s, lf) {
			return lf.term()
		}
	}
	if x, ok := a.IntVal(); ok {
		if y, ok := b.IntVal(); ok {
			switch op {
			case "*":
				return IntLit(x * y)
			}
		}
	}
	if op == "*" {
		if y, ok := b.IntVal(); ok && y == 1 {
			return a
		}
		if x, ok := a.IntVal(); ok && x == 1 {
			return b
		}
		if y, ok := b.IntVal(); ok && y == 0 {
			return IntLit(0)
		}
		if x, ok := a.IntVal(); ok && x == 0 {
			return IntLit(0)
		}
	}
	return &Term{Op: op, Args: []*Term{a, b}, S: SInt}
}

func Add(a, b *Term) *Term { return arith("+", a, b) }
func Sub(a, b *Term) *Term { return arith("-", a, b) }
func Mul(a, b *Term) *Term { return arith("*", a, b) }

func cmp(op string, a, b *Term) *Term {
	if d, ok := constDiff(a, b); ok {
		switch op {
		case "<":
			return BoolLit(d < 0)
		case "<=":
			return BoolLit(d <= 0)
		case ">":
			return BoolLit(d > 0)
		case ">=":
			return BoolLit(d >= 0)
		}
	}
	// str.len is non-negative: 0 <= len(x) + c (c >= 0)
	if op == "<" || op == "<=" {
		if lf := linNormDiff(b, a); lf != nil && lf.nonNegAtoms() {
			if op == "<=" && lf.konst >= 0 || op == "<" && lf.konst > 0 {
				return TTrue
			}
		}
	}
	if op == ">" || op == ">=" {
		if lf := linNormDiff(a, b); lf != nil && lf.nonNegAtoms() {
			if op == ">=" && lf.konst >= 0 || op == ">" && lf.konst > 0 {
				return TTrue
			}
		}
	}
	// canonical forms: a > b  ==>  b < a ; a >= b ==> b <= a ; and
	// not(a < b) is kept as (not (< a b)) so And/Or can spot complements of
	// the *same* comparison: a <= b is rendered as not (b < a).
	switch op {
	case ">":
		return cmp("<", b, a)
	case ">=":
		return cmp("<=", b, a)
	case "<=":
		return Not(cmp("<", b, a))
	}
	return &Term{Op: "<", Args: []*Term{a, b}, S: SBool}
}

func Lt(a, b *Term) *Term { return cmp("<", a, b) }
func Le(a, b *Term) *Term { return cmp("<=", a, b) }
func Gt(a, b *Term) *Term { return cmp(">", a, b) }
func Ge(a, b *Term) *Term { return cmp(">=", a, b) }

func StrLen(a *Term) *Term {
	if s, ok := a.StrVal(); ok {
		return IntLit(int64(len(s)))
	}
	if a.Op == "str.++" && !a.Sym {
		sum := IntLit(0)
		for _, p := range a.Args {
			sum = Add(sum, StrLen(p))
		}
		return sum
	}
	return &Term{Op: "str.len", Args: []*Term{a}, S: SInt}
}

func StrCat(xs ...*Term) *Term {
	var out []*Term
	for _, x := range xs {
		if s, ok := x.StrVal(); ok && s == "" {
			continue
		}
		if x.Op == "str.++" && !x.Sym {
			out = append(out, x.Args...)
			continue
		}
		out = append(out, x)
	}
	// merge adjacent literals
	var m []*Term
	for _, x := range out {
		if len(m) > 0 {
			if a, ok := m[len(m)-1].StrVal(); ok {
				if b, ok := x.StrVal(); ok {
					m[len(m)-1] = StrLit(a + b)
					continue
				}
			}
		}
		m = append(m, x)
	}
	if len(m) == 0 {
		return StrLit("")
	}
	if len(m) == 1 {
		return m[0]
	}
	return &Term{Op: "str.++", Args: m, S: SStr}
}

func StrSub(s, off, n *Term) *Term {
	if l, ok := n.IntVal(); ok && l == 0 {
		return StrLit("")
	}
	if o, ok := off.IntVal(); ok && o == 0 && Eq(n, StrLen(s)) == TTrue {
		return s
	}
	// substr over a concatenation at part boundaries
	if s.Op == "str.++" && !s.Sym {
		pos := IntLit(0)
		for i, p := range s.Args {
			if Eq(pos, off) == TTrue {
				// starts at part i: take whole parts while lengths add up
				got := IntLit(0)
				for j := i; j <= len(s.Args); j++ {
					if Eq(got, n) == TTrue {
						return StrCat(s.Args[i:j]...)
					}
					if j == len(s.Args) {
						break
					}
					got = Add(got, StrLen(s.Args[j]))
				}
				break
			}
			pos = Add(pos, StrLen(p))
		}
	}
	if v, ok := s.StrVal(); ok {
		if o, ok := off.IntVal(); ok {
			if l, ok := n.IntVal(); ok && o >= 0 && l >= 0 && o+l <= int64(len(v)) {
				return StrLit(v[o : o+l])
			}
		}
	}
	return &Term{Op: "str.substr", Args: []*Term{s, off, n}, S: SStr}
}

func Builtin(op, sort string, args ...*Term) *Term {
	return &Term{Op: op, Args: args, S: sort}
}

func Select(arr, idx *Term) *Term {
	// select over store with syntactically equal / distinct literal index
	for arr.Op == "store" && !arr.Sym {
		e := Eq(arr.Args[1], idx)
		if e == TTrue {
			return arr.Args[2]
		}
		if e == TFalse {
			arr = arr.Args[0]
			continue
		}
		break
	}
	if arr.Sym && strings.HasPrefix(arr.Op, "shift!") {
		// shifted view of an array: shift(a, lo)[i] = a[i+lo]
		return Select(arr.Args[0], Add(idx, arr.Args[1]))
	}
	el := elemSort(arr.S)
	return &Term{Op: "select", Args: []*Term{arr, idx}, S: el}
}

func Store(arr, idx, v *Term) *Term {
	if elemSort(arr.S) != v.S {
		panic(fmt.Sprintf("store sort mismatch %s <- %s:%s", arr.S, v, v.S))
	}
	return &Term{Op: "store", Args: []*Term{arr, idx, v}, S: arr.S}
}

func elemSort(arr string) string {
	// "(Array I E)" -> E  (I is always a simple sort here)
	if !strings.HasPrefix(arr, "(Array ") {
		panic("not an array sort: " + arr)
	}
	rest := arr[len("(Array "):]
	sp := strings.IndexByte(rest, ' ')
	return rest[sp+1 : len(rest)-1]
}

func linNormDiff(a, b *Term) *linForm {
	lf := &linForm{coef: map[string]int64{}, atom: map[string]*Term{}}
	if !linOf(a, 1, lf) || !linOf(b, -1, lf) {
		return nil
	}
	return lf
}

// nonNegAtoms: every atom with non-zero coefficient is a str.len term with a
// positive coefficient (so the sum of atoms is >= 0).
func (lf *linForm) nonNegAtoms() bool {
	for k, c := range lf.coef {
		if c == 0 {
			continue
		}
		a := lf.atom[k]
		if c < 0 || a.Op != "str.len" || a.Sym {
			return false
		}
	}
	return true
}

// ---- collecting symbols ---------------------------------------------------

func collectSyms(t *Term, into map[string]bool) {
	if t.Sym {
		into[t.Op] = true
	}
	for _, a := range t.Args {
		collectSyms(a, into)
	}
}

// declsFor returns SMT-LIB declarations for all symbols used in ts.
func declsFor(ts []*Term, extra map[string]bool) string {
	used := map[string]bool{}
	for _, t := range ts {
		collectSyms(t, used)
	}
	for k := range extra {
		used[k] = true
	}
	names := make([]string, 0, len(used))
	for n := range used {
		names = append(names, n)
	}
	sort.Strings(names)
	var b strings.Builder
	gsymMu.Lock()
	defer gsymMu.Unlock()
	for _, n := range names {
		d := gsym.decls[n]
		if d == nil {
			continue // defined in prelude
		}
		fmt.Fprintf(&b, "(declare-fun %s (%s) %s)\n", d.Name, strings.Join(d.Args, " "), d.Ret)
	}
	return b.String()
}

func lookupDecl(name string) *Decl {
	gsymMu.Lock()
	defer gsymMu.Unlock()
	return gsym.decls[smtName(name)]
}
