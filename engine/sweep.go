package main

// Closed-world sweeps (DESIGN section 3): "nobody else does X". A sweep walks
// the SSA of every non-test function of the repository and produces one frame
// style obligation per function that contains a site of effect class K but is
// neither under a contract for the property nor only reachable through
// functions that are (in which case its effects are seen, inlined, by their
// contracts).

import (
	"go/constant"
	"go/types"
	"sort"
	"strings"

	"golang.org/x/tools/go/ssa"
)

type sweepSite struct {
	Pos  string
	What string
}

func (p *Program) posOf(ins ssa.Instruction) string {
	if !ins.Pos().IsValid() {
		return ""
	}
	pp := p.Fset.Position(ins.Pos())
	f := pp.Filename
	if i := strings.LastIndex(f, "/repo/"); i >= 0 {
		f = f[i+6:]
	}
	return f + ":" + itoa(pp.Line)
}

func itoa(n int) string {
	if n == 0 {
		return "0"
	}
	var b []byte
	for n > 0 {
		b = append([]byte{byte('0' + n%10)}, b...)
		n /= 10
	}
	return string(b)
}

func constString(v ssa.Value) (string, bool) {
	if c, ok := v.(*ssa.Const); ok && c.Value != nil && c.Value.Kind() == constant.String {
		return constant.StringVal(c.Value), true
	}
	return "", false
}

// uidWriteSites: calls that may put or delete the session's user identity.
func (p *Program) uidWriteSites(fn *ssa.Function) []sweepSite {
	var out []sweepSite
	for _, b := range fn.Blocks {
		for _, ins := range b.Instrs {
			c, ok := ins.(ssa.CallInstruction)
			if !ok {
				continue
			}
			callee := c.Common().StaticCallee()
			if callee == nil || callee.Pkg == nil || callee.Pkg.Pkg.Path() != abPkg {
				continue
			}
			args := c.Common().Args
			switch callee.Name() {
			case "PutSession":
				// (deleting the identity - logout, expiry - never establishes a
				// session and is covered by C09/C10)
				if len(args) >= 2 {
					if k, ok := constString(args[1]); ok {
						if k == "uid" {
							out = append(out, sweepSite{p.posOf(ins), callee.Name() + "(\"uid\")"})
						}
					} else {
						out = append(out, sweepSite{p.posOf(ins), callee.Name() + " with a non-constant key (may be \"uid\")"})
					}
				}
			case "putState", "delState", "setState":
				if fn.Pkg != nil && fn.Pkg.Pkg.Path() == abPkg && (fn.Name() == "PutSession" || fn.Name() == "DelSession" || fn.Name() == "PutCookie" || fn.Name() == "DelCookie" || fn.Name() == "putState" || fn.Name() == "delState" || fn.Name() == "delAllState" || fn.Name() == "DelAllSession") {
					continue // the primitives themselves
				}
				out = append(out, sweepSite{p.posOf(ins), "direct call of " + callee.Name()})
			}
		}
	}
	return out
}

// sinkSites: calls that write to the log or to storage (C17).
func (p *Program) sinkSites(fn *ssa.Function) []sweepSite {
	var out []sweepSite
	if fn.Signature.Recv() != nil && strings.HasSuffix(fn.Signature.Recv().Type().String(), ".FmtLogger") {
		return nil // the logging primitives themselves
	}
	for _, b := range fn.Blocks {
		for _, ins := range b.Instrs {
			c, ok := ins.(ssa.CallInstruction)
			if !ok {
				continue
			}
			cc := c.Common()
			if cc.IsInvoke() {
				switch cc.Method.Name() {
				case "Save", "Create", "SaveOAuth2", "AddRememberToken":
					if strings.HasSuffix(cc.Value.Type().String(), "ServerStorer") {
						out = append(out, sweepSite{p.posOf(ins), "storage write " + cc.Method.Name()})
					}
				case "Info", "Error":
					if strings.HasSuffix(cc.Value.Type().String(), ".Logger") {
						out = append(out, sweepSite{p.posOf(ins), "log call " + cc.Method.Name()})
					}
				}
				continue
			}
			if callee := cc.StaticCallee(); callee != nil {
				s := callee.String()
				if strings.HasSuffix(s, ".FmtLogger).Infof") || strings.HasSuffix(s, ".FmtLogger).Errorf") || strings.HasSuffix(s, ".FmtLogger).Info") || strings.HasSuffix(s, ".FmtLogger).Error") {
					out = append(out, sweepSite{p.posOf(ins), "log call " + callee.Name()})
				}
			}
		}
	}
	return out
}

// callers builds the static caller relation (including closure parents).
func (p *Program) callers() map[*ssa.Function][]*ssa.Function {
	m := map[*ssa.Function][]*ssa.Function{}
	for _, fn := range p.Funcs {
		for _, b := range fn.Blocks {
			for _, ins := range b.Instrs {
				switch x := ins.(type) {
				case ssa.CallInstruction:
					if callee := x.Common().StaticCallee(); callee != nil {
						m[callee] = append(m[callee], fn)
					}
				case *ssa.MakeClosure:
					if f, ok := x.Fn.(*ssa.Function); ok {
						m[f] = append(m[f], fn)
					}
				}
				// function values passed around (bound methods registered as handlers)
				for _, op := range ins.Operands(nil) {
					if op == nil || *op == nil {
						continue
					}
					if f, ok := (*op).(*ssa.Function); ok && p.inRepo(f) {
						if _, isCall := ins.(ssa.CallInstruction); !isCall {
							m[f] = append(m[f], fn)
						}
					}
				}
			}
		}
	}
	return m
}

func (v *Verifier) underContractFor(key string) bool {
	fc := v.CS.Funcs[key]
	if fc == nil {
		fc = v.CS.Funcs[altRecvKey(key)]
	}
	if fc == nil {
		return false
	}
	for _, c := range fc.Clauses {
		if c.Kind == "ensures" && c.appliesTo(v.Prop, fc) {
			return true
		}
	}
	return false
}

// coveredByCallers: every static caller chain of fn reaches a function under
// contract for the property within a few steps (its effects are then checked,
// inlined, by that contract). A function without callers is an entry point and
// is not covered.
func (v *Verifier) coveredByCallers(fn *ssa.Function, callers map[*ssa.Function][]*ssa.Function, depth int, seen map[*ssa.Function]bool) bool {
	if v.coveredPred != nil {
		if v.coveredPred(v.Prog.funcKey(fn)) {
			return true
		}
	} else if v.underContractFor(v.Prog.funcKey(fn)) {
		return true
	}
	if depth > 4 || seen[fn] {
		return false
	}
	seen[fn] = true
	cs := callers[fn]
	if len(cs) == 0 {
		return false
	}
	for _, c := range cs {
		if !v.Prog.inRepo(c) || strings.HasPrefix(v.Prog.funcKey(c), "mocks:") {
			continue
		}
		if !v.coveredByCallers(c, callers, depth+1, seen) {
			return false
		}
	}
	return true
}

func (v *Verifier) addEffectSweep(label string, sites func(fn *ssa.Function) []sweepSite) {
	callers := v.Prog.callers()
	for _, k := range v.Prog.sortedFuncKeys() {
		if strings.HasPrefix(k, "mocks:") {
			continue
		}
		fn := v.Prog.Funcs[k]
		ss := sites(fn)
		if len(ss) == 0 {
			continue
		}
		name := "sweep/" + strings.Replace(k, ":", ".", 1) + "/" + label
		ob := &Obligation{Name: name, Func: k, Label: label, Kind: "sweep", Goal: TTrue}
		if !v.coveredByCallers(fn, callers, 0, map[*ssa.Function]bool{}) && v.sweepDefault != nil && v.sweepDefault(fn, callers) {
			// the function (and its uncontracted callers) got the property's default
			// contract, which is checked against the bodies like any other
			ob.Notes = []string{"not under a written contract: default contract applied"}
		} else if !v.coveredByCallers(fn, callers, 0, map[*ssa.Function]bool{}) {
			ob.Goal = TFalse
			var notes []string
			for _, s := range ss {
				notes = append(notes, s.Pos+": "+s.What)
			}
			sort.Strings(notes)
			ob.Notes = append([]string{"function is not under contract for " + v.Prop + " and is reachable without passing through one that is"}, notes...)
			ob.Trace = ob.Notes
			for _, kf := range v.knownFor(name) {
				v.Regions = append(v.Regions, &Obligation{Name: name, Func: k, Label: label, Kind: "known_region", Goal: TTrue, WantSat: true, Notes: []string{kf.What}})
				ob.Goal = TTrue
			}
		}
		v.Obls = append(v.Obls, ob)
	}
}

// smsKeySites: writes of the session keys that carry the SMS login state
// (sms_pending / sms_secret, compared by VALUE: a refactor that makes another
// module write the same key value is a writer too).
func (p *Program) smsKeySites(fn *ssa.Function) []sweepSite {
	keys := map[string]bool{}
	if sp := p.ByPkg[p.Module+"/otp/twofactor/sms2fa"]; sp != nil {
		for _, n := range []string{"SessionSMSPendingPID", "SessionSMSSecret"} {
			if c, ok := sp.Pkg.Scope().Lookup(n).(*types.Const); ok && c.Val().Kind() == constant.String {
				keys[constant.StringVal(c.Val())] = true
			}
		}
	}
	var out []sweepSite
	for _, b := range fn.Blocks {
		for _, ins := range b.Instrs {
			c, ok := ins.(ssa.CallInstruction)
			if !ok {
				continue
			}
			callee := c.Common().StaticCallee()
			if callee == nil || callee.Pkg == nil || callee.Pkg.Pkg.Path() != abPkg || callee.Name() != "PutSession" {
				continue
			}
			args := c.Common().Args
			if len(args) < 2 {
				continue
			}
			if k, ok := constString(args[1]); ok {
				if keys[k] {
					out = append(out, sweepSite{p.posOf(ins), "PutSession(" + k + ")"})
				}
			} else {
				out = append(out, sweepSite{p.posOf(ins), "PutSession with a non-constant key"})
			}
		}
	}
	return out
}

func (v *Verifier) hasClause(key, label string) bool {
	fc := v.CS.Funcs[key]
	if fc == nil {
		return false
	}
	for _, c := range fc.Clauses {
		if c.Kind == "ensures" && c.Label == label && c.appliesTo(v.Prop, fc) {
			return true
		}
	}
	return false
}

// whitelistWriteSites: stores into Config.Storage.SessionStateWhitelistKeys (the
// field itself, or an element of the slice read from it).
func (p *Program) whitelistWriteSites(fn *ssa.Function) []sweepSite {
	const field = "SessionStateWhitelistKeys"
	isField := func(v ssa.Value) bool {
		fa, ok := v.(*ssa.FieldAddr)
		if !ok {
			return false
		}
		st, ok := fa.X.Type().Underlying().(*types.Pointer)
		if !ok {
			return false
		}
		s, ok := st.Elem().Underlying().(*types.Struct)
		return ok && fa.Field < s.NumFields() && s.Field(fa.Field).Name() == field
	}
	var fromField func(v ssa.Value, d int) bool
	fromField = func(v ssa.Value, d int) bool {
		if d > 6 {
			return false
		}
		switch x := v.(type) {
		case *ssa.UnOp:
			return isField(x.X)
		case *ssa.Slice:
			return fromField(x.X, d+1)
		case *ssa.Phi:
			for _, e := range x.Edges {
				if fromField(e, d+1) {
					return true
				}
			}
		}
		return false
	}
	var out []sweepSite
	for _, b := range fn.Blocks {
		for _, ins := range b.Instrs {
			st, ok := ins.(*ssa.Store)
			if !ok {
				continue
			}
			if isField(st.Addr) {
				out = append(out, sweepSite{p.posOf(ins), "assignment to Config.Storage." + field})
			} else if ia, ok := st.Addr.(*ssa.IndexAddr); ok && fromField(ia.X, 0) {
				out = append(out, sweepSite{p.posOf(ins), "element store into Config.Storage." + field})
			}
		}
	}
	return out
}

// handlerOf resolves the function registered as an event handler (a bound
// method value, a function literal or a named function).
func (p *Program) handlerOf(v ssa.Value) *ssa.Function {
	switch x := v.(type) {
	case *ssa.Function:
		return x
	case *ssa.MakeClosure:
		f, _ := x.Fn.(*ssa.Function)
		if f == nil {
			return nil
		}
		if strings.HasSuffix(f.Name(), "$bound") {
			if m, ok := f.Object().(*types.Func); ok {
				if mf := p.SSA.FuncValue(m); mf != nil {
					return mf
				}
			}
			return nil
		}
		return f
	case *ssa.ChangeType:
		return p.handlerOf(x.X)
	}
	return nil
}

// eventRegSites: registrations of handlers for the events a property is
// sensitive to, whose handler is not under contract for the property.
func (v *Verifier) eventRegSites(when map[string][]string, label, clause string) func(fn *ssa.Function) []sweepSite {
	p := v.Prog
	evName := func(c ssa.Value) string {
		k, ok := c.(*ssa.Const)
		if !ok || k.Value == nil || k.Value.Kind() != constant.Int {
			return ""
		}
		n, _ := constant.Int64Val(k.Value)
		root := p.ByPkg[p.Module]
		if root == nil {
			return ""
		}
		for _, name := range root.Pkg.Scope().Names() {
			if c, ok := root.Pkg.Scope().Lookup(name).(*types.Const); ok && strings.HasPrefix(name, "Event") && c.Type().String() == abPkg+".Event" {
				if m, ok := constant.Int64Val(c.Val()); ok && m == n {
					return name
				}
			}
		}
		return ""
	}
	return func(fn *ssa.Function) []sweepSite {
		var out []sweepSite
		for _, b := range fn.Blocks {
			for _, ins := range b.Instrs {
				c, ok := ins.(ssa.CallInstruction)
				if !ok {
					continue
				}
				callee := c.Common().StaticCallee()
				if callee == nil || callee.Pkg == nil || callee.Pkg.Pkg.Path() != abPkg || callee.Signature.Recv() == nil {
					continue
				}
				if !strings.HasSuffix(callee.Signature.Recv().Type().String(), ".Events") || (callee.Name() != "Before" && callee.Name() != "After") {
					continue
				}
				args := c.Common().Args
				if len(args) < 3 {
					continue
				}
				ev := evName(args[1])
				sensitive := ev == "" // a non-constant event may be any event
				for _, e := range when[callee.Name()] {
					if e == ev {
						sensitive = true
					}
				}
				if !sensitive {
					continue
				}
				h := p.handlerOf(args[2])
				if h != nil && v.underContractFor(p.funcKey(h)) {
					continue
				}
				if h != nil && p.inRepo(h) {
					// a handler nobody wrote a contract for gets the default one
					// (transparency), checked against its body like any other
					v.defaultHandlerContract(p.funcKey(h), label, clause)
					continue
				}
				out = append(out, sweepSite{p.posOf(ins), "registers an unresolved function value for " + callee.Name() + "(" + ev + "): cannot be put under contract for " + v.Prop})
			}
		}
		return out
	}
}

// defaultHandlerContract: the contract every event handler has unless its
// contract file says something more specific for the property: when it
// neither fails nor panics it does not take over the response and changes
// nothing a client could observe.
const defaultHandlerClause = `(!panics && result.1 == nil) ==> (result.0 == false && !emits Redirect(_) && !emits Respond(_, _, _) && ` +
	`!emits Sess.Put(_, _) && !emits Sess.Del(_) && !emits Sess.DelAll(_) && !emits Cook.Put(_, _) && !emits Cook.Del(_) && ` +
	`!emits HeaderSet(_, _, _) && !emits WriteHeader(_, _) && !emits Write(_, _) && !emits HTTPRedirect(_, _, _))`

func (v *Verifier) defaultHandlerContract(key, label, clause string) {
	fc := v.CS.Funcs[key]
	if fc == nil {
		rel := key
		if i := strings.Index(key, ":"); i >= 0 {
			rel = key[:i]
		}
		fc = &FuncContract{Pkg: rel, Key: key, File: "(default event-handler contract)", Options: map[string]string{}}
		v.CS.Funcs[key] = fc
	}
	for _, c := range fc.Clauses {
		if c.Label == label {
			return
		}
	}
	n, err := parseExpr(clause)
	if err != nil {
		v.Errors = append(v.Errors, "default handler contract: "+err.Error())
		return
	}
	fc.Clauses = append(fc.Clauses, &Clause{Kind: "ensures", Label: label, Props: []string{v.Prop}, Text: clause, Expr: n, Default: true})
	v.VerifyFunc(fc)
}

// C02's default contract for a handler that runs before the second factor was
// checked (before-auth and auth-hijack handlers): it mints nothing that could
// later authenticate - no session identity, no cookie, no remember token.
const preFactorHandlerClause = `(each Sess.Put(?k, _) => k != "uid") && !emits Cook.Put(_, _) && !emits Store.AddRememberToken(_, _)`

// defaultSecretsContract: C17's default contract for a function that writes to
// the log or to storage and has no written contract - "no_secret_leak:
// secrets_clean" - applied to the function and to its callers that are not
// under contract either (a secret may be handed down by them).
func (v *Verifier) defaultSecretsContract(fn *ssa.Function, callers map[*ssa.Function][]*ssa.Function) bool {
	seen := map[*ssa.Function]bool{}
	var todo []*ssa.Function
	var walk func(f *ssa.Function, d int)
	walk = func(f *ssa.Function, d int) {
		if seen[f] || d > 4 || !v.Prog.inRepo(f) || f.Blocks == nil {
			return
		}
		seen[f] = true
		key := v.Prog.funcKey(f)
		if strings.HasPrefix(key, "mocks:") || v.underContractFor(key) {
			return
		}
		todo = append(todo, f)
		for _, c := range callers[f] {
			walk(c, d+1)
		}
	}
	walk(fn, 0)
	n, err := parseExpr("secrets_clean")
	if err != nil {
		return false
	}
	for _, f := range todo {
		key := v.Prog.funcKey(f)
		fc := v.CS.Funcs[key]
		if fc == nil {
			rel := key
			if i := strings.Index(key, ":"); i >= 0 {
				rel = key[:i]
			}
			fc = &FuncContract{Pkg: rel, Key: key, File: "(default C17 contract)", Options: map[string]string{}}
			v.CS.Funcs[key] = fc
		}
		fc.Clauses = append(fc.Clauses, &Clause{Kind: "ensures", Label: "no_secret_leak", Props: []string{v.Prop}, Text: "secrets_clean", Expr: n, Default: true})
		v.VerifyFunc(fc)
	}
	return true
}

// underlyingUseSites (C11): a method of ClientStateResponseWriter that calls
// anything on (or hands to anything) the writer it wraps releases bytes - or
// lets others release them - behind the flush; it must be under contract.
func (p *Program) underlyingUseSites(fn *ssa.Function) []sweepSite {
	recv := fn.Signature.Recv()
	if recv == nil || len(fn.Params) == 0 {
		return nil
	}
	rt := recv.Type()
	if pp, ok := rt.(*types.Pointer); ok {
		rt = pp.Elem()
	}
	if !isNamed(rt, abPkg, "ClientStateResponseWriter") {
		return nil
	}
	derived := map[ssa.Value]bool{}
	isUnderlyingField := func(v ssa.Value) bool {
		switch x := v.(type) {
		case *ssa.FieldAddr:
			if st, ok := x.X.Type().Underlying().(*types.Pointer); ok {
				if s, ok := st.Elem().Underlying().(*types.Struct); ok && x.Field < s.NumFields() {
					return s.Field(x.Field).Name() == "ResponseWriter"
				}
			}
		case *ssa.Field:
			if s, ok := x.X.Type().Underlying().(*types.Struct); ok && x.Field < s.NumFields() {
				return s.Field(x.Field).Name() == "ResponseWriter"
			}
		}
		return false
	}
	for changed := true; changed; {
		changed = false
		for _, b := range fn.Blocks {
			for _, ins := range b.Instrs {
				v, ok := ins.(ssa.Value)
				if !ok || derived[v] {
					continue
				}
				d := false
				switch x := ins.(type) {
				case *ssa.UnOp:
					d = isUnderlyingField(x.X) || derived[x.X]
				case *ssa.Field:
					d = isUnderlyingField(x)
				case *ssa.TypeAssert:
					d = derived[x.X]
				case *ssa.Extract:
					d = derived[x.Tuple]
				case *ssa.ChangeInterface:
					d = derived[x.X]
				case *ssa.MakeInterface:
					d = derived[x.X]
				case *ssa.Phi:
					for _, e := range x.Edges {
						if derived[e] {
							d = true
						}
					}
				}
				if d {
					derived[v] = true
					changed = true
				}
			}
		}
	}
	var out []sweepSite
	for _, b := range fn.Blocks {
		for _, ins := range b.Instrs {
			c, ok := ins.(ssa.CallInstruction)
			if !ok {
				continue
			}
			cc := c.Common()
			if cc.IsInvoke() && derived[cc.Value] {
				out = append(out, sweepSite{p.posOf(ins), "calls " + cc.Method.Name() + " on the wrapped writer"})
				continue
			}
			for _, a := range cc.Args {
				if derived[a] {
					out = append(out, sweepSite{p.posOf(ins), "hands the wrapped writer to " + cc.Value.Name()})
					break
				}
			}
		}
	}
	return out
}

// redirectSites (C15): calls of the configured Redirector.
func (p *Program) redirectSites(fn *ssa.Function) []sweepSite {
	var out []sweepSite
	for _, b := range fn.Blocks {
		for _, ins := range b.Instrs {
			c, ok := ins.(ssa.CallInstruction)
			if !ok {
				continue
			}
			cc := c.Common()
			if cc.IsInvoke() && cc.Method.Name() == "Redirect" && strings.HasSuffix(cc.Value.Type().String(), "Redirector") {
				out = append(out, sweepSite{p.posOf(ins), "answers with a redirect"})
			}
		}
	}
	return out
}

// defaultRedirectContract: C15's default contract for a function that answers
// with redirects and has no written C15 contract: what the client supplied
// appears in the target only inside the query part.
func (v *Verifier) defaultRedirectContract(fn *ssa.Function, callers map[*ssa.Function][]*ssa.Function) bool {
	key := v.Prog.funcKey(fn)
	if strings.HasPrefix(key, "mocks:") || fn.Blocks == nil {
		return false
	}
	n, err := parseExpr("each Redirect(?ro) => query_only(ro.RedirectPath)")
	if err != nil {
		v.Errors = append(v.Errors, "default redirect contract: "+err.Error())
		return false
	}
	fc := v.CS.Funcs[key]
	if fc == nil {
		rel := key
		if i := strings.Index(key, ":"); i >= 0 {
			rel = key[:i]
		}
		fc = &FuncContract{Pkg: rel, Key: key, File: "(default C15 contract)", Options: map[string]string{}}
		v.CS.Funcs[key] = fc
	}
	fc.Clauses = append(fc.Clauses, &Clause{Kind: "ensures", Label: "target_from_configuration", Props: []string{v.Prop}, Text: "each Redirect(?ro) => query_only(ro.RedirectPath)", Expr: n, Default: true})
	v.VerifyFunc(fc)
	return true
}

// handlerFrameSites: the Fire summary lets registered handlers rewrite only the
// lock and confirm fields of the context user. This sweep checks that frame
// against the handlers the library itself registers: a handler (or something it
// calls, statically, up to depth 4) that puts any other field of a user record
// is a site.
var fireFrame = map[string]bool{"PutAttemptCount": true, "PutLastAttempt": true, "PutLocked": true, "PutConfirmed": true, "PutConfirmSelector": true, "PutConfirmVerifier": true}

func (v *Verifier) handlerFrameSites(fn *ssa.Function) []sweepSite {
	p := v.Prog
	var out []sweepSite
	for _, b := range fn.Blocks {
		for _, ins := range b.Instrs {
			c, ok := ins.(ssa.CallInstruction)
			if !ok {
				continue
			}
			callee := c.Common().StaticCallee()
			if callee == nil || callee.Pkg == nil || callee.Pkg.Pkg.Path() != abPkg || callee.Signature.Recv() == nil {
				continue
			}
			if !strings.HasSuffix(callee.Signature.Recv().Type().String(), ".Events") || (callee.Name() != "Before" && callee.Name() != "After") || len(c.Common().Args) < 3 {
				continue
			}
			h := p.handlerOf(c.Common().Args[2])
			if h == nil || !p.inRepo(h) {
				continue
			}
			seen := map[*ssa.Function]bool{}
			var bad []string
			var walk func(f *ssa.Function, d int)
			walk = func(f *ssa.Function, d int) {
				if f == nil || seen[f] || d > 4 || f.Blocks == nil {
					return
				}
				seen[f] = true
				for _, bb := range f.Blocks {
					for _, i2 := range bb.Instrs {
						cc, ok := i2.(ssa.CallInstruction)
						if !ok {
							continue
						}
						cm := cc.Common()
						if cm.IsInvoke() {
							n := cm.Method.Name()
							if strings.HasPrefix(n, "Put") && isUserIface(cm.Value.Type()) && !fireFrame[n] {
								bad = append(bad, n+" at "+p.posOf(i2))
							}
							continue
						}
						if sc := cm.StaticCallee(); sc != nil && p.inRepo(sc) {
							walk(sc, d+1)
						}
					}
				}
			}
			walk(h, 0)
			for _, w := range bad {
				out = append(out, sweepSite{p.posOf(ins), "handler " + p.funcKey(h) + " writes a record field outside the frame the event summary assumes: " + w})
			}
		}
	}
	return out
}
