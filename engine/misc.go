package main

import (
	"go/types"
	"strings"
)

// scanUserFields collects the record fields of every user-record interface
// in the repository (interfaces with PutPID) with their sorts.
func (p *Program) scanUserFields() {
	p.UserFields = map[string]string{}
	for _, pk := range p.Pkgs {
		sc := pk.Types.Scope()
		for _, name := range sc.Names() {
			tn, ok := sc.Lookup(name).(*types.TypeName)
			if !ok {
				continue
			}
			t := tn.Type()
			if !isUserIface(t) {
				continue
			}
			ms := types.NewMethodSet(t)
			for i := 0; i < ms.Len(); i++ {
				f := ms.At(i).Obj().(*types.Func)
				if !strings.HasPrefix(f.Name(), "Get") {
					continue
				}
				sig := f.Type().(*types.Signature)
				if sig.Params().Len() != 0 || sig.Results().Len() != 1 {
					continue
				}
				if s, ok := fieldSort(sig.Results().At(0).Type()); ok {
					p.UserFields[f.Name()[3:]] = s
				}
			}
		}
	}
}

func (p *Program) userFieldSort(name string) (string, bool) {
	s, ok := p.UserFields[name]
	return s, ok
}

// uidWritersCarry: closed-world rule for a property whose argument runs "every function
// that writes the session identity has clause X": a new writer of session[uid] (a new login
// path) without one of the named clauses fails the sweep. exempt lists the packages whose
// writers the property's statement does not speak about.
func (v *Verifier) uidWritersCarry(label string, clauses []string, exempt ...string) {
	v.coveredPred = func(key string) bool {
		for _, e := range exempt {
			if strings.HasPrefix(key, e+":") {
				return true
			}
		}
		for _, c := range clauses {
			if v.hasClause(key, c) {
				return true
			}
		}
		return false
	}
	v.addEffectSweep(label, v.Prog.uidWriteSites)
	v.coveredPred = nil
}

func (v *Verifier) addSweeps() {
	switch v.Prop {
	case "C03":
		// every interactive login path consults the lock/confirm veto (remember's cookie
		// re-authentication is not one of the flows the statement lists - the middlewares
		// cover it; a registration creates the account it logs in)
		v.uidWritersCarry("uid_writers_consult_veto", []string{"login_veto"}, "remember", "register")
	case "C09":
		// every login path announces the login (that is what starts the idle clock)
		v.uidWritersCarry("uid_writers_announce_login", []string{"login_announced"}, "remember")
	}
	switch v.Prop {
	case "C01", "C03", "C04", "C05", "C06", "C12", "C13", "C16", "C18", "C19":
		// the frame of the event summary, checked against the handlers the library registers
		v.coveredPred = func(string) bool { return false }
		v.addEffectSweep("handlers_within_event_frame", v.handlerFrameSites)
		v.coveredPred = nil
	}
	switch v.Prop {
	case "C01", "C02", "C12":
		// every writer of the SMS login keys preserves the session invariant (the parked
		// login and the texted code belong to one account; C01/C12 since round 11: two
		// modules sharing the parked-login key let one account's code finish another's login)
		v.coveredPred = func(key string) bool { return v.hasClause(key, "sms_binding_inv") }
		v.addEffectSweep("sms_keys_only_under_invariant", v.Prog.smsKeySites)
		v.coveredPred = nil
	}
	switch v.Prop {
	case "C20":
		v.addFrameObligations()
	case "C01":
		v.addEffectSweep("no_uncontracted_uid_write", v.Prog.uidWriteSites)
	case "C02":
		// every password-like login path offers the login to the 2FA hijack, or is the
		// second-factor step itself (OAuth2 and remember logins are not password logins; a
		// registration creates the account it logs in)
		v.uidWritersCarry("uid_writers_pass_second_factor", []string{"hijack_fired", "second_factor_guard"}, "remember", "register", "oauth2")
		// handlers that run between the password check and the second factor
		v.coveredPred = func(string) bool { return false }
		v.addEffectSweep("event_handlers_under_contract", v.eventRegSites(map[string][]string{
			"Before": {"EventAuth", "EventAuthHijack"},
		}, "mints_no_credential", preFactorHandlerClause))
		v.coveredPred = nil
	case "C17":
		v.sweepDefault = v.defaultSecretsContract
		v.addEffectSweep("no_uncontracted_sink", v.Prog.sinkSites)
		v.sweepDefault = nil
	case "C15":
		// every function that answers with a redirect: the target's path comes from
		// the configuration (written contract, or the default one)
		v.coveredPred = func(key string) bool { return v.underContractFor(key) }
		v.sweepDefault = v.defaultRedirectContract
		v.addEffectSweep("redirect_targets_under_contract", v.Prog.redirectSites)
		v.sweepDefault = nil
		v.coveredPred = nil
	case "C11":
		// bytes reach the client only through methods whose contract puts the flush first
		v.addEffectSweep("wrapped_writer_only_under_contract", v.Prog.underlyingUseSites)
	case "C16":
		// what a client observes of a login or recovery attempt depends on the handlers
		// registered for these events: each must be under contract for C16
		v.coveredPred = func(string) bool { return false }
		v.addEffectSweep("event_handlers_under_contract", v.eventRegSites(map[string][]string{
			"Before": {"EventAuth", "EventRecoverStart"},
			"After":  {"EventAuthFail", "EventRecoverStart"},
		}, "unlisted_handler_transparent", defaultHandlerClause))
		v.coveredPred = nil
	case "C09", "C10":
		if v.Prop == "C10" {
			// whoever hooks the logout event can keep the wipe from being delivered: a
			// handler that handles the request or fails makes Logout return before it
			// answers. Default contract: it does neither.
			v.coveredPred = func(string) bool { return false }
			v.addEffectSweep("event_handlers_under_contract", v.eventRegSites(map[string][]string{
				"Before": {"EventLogout"},
				"After":  {"EventLogout"},
			}, "logout_not_blocked", `!panics ==> (result.0 == false && result.1 == nil)`))
			v.coveredPred = nil
		}
		// "whitelisted" means whitelisted by the integrator: no library function
		// writes the session whitelist (nobody is exempt)
		v.coveredPred = func(string) bool { return false }
		v.addEffectSweep("whitelist_integrator_owned", v.Prog.whitelistWriteSites)
		v.coveredPred = nil
	}
}
