package main

import (
	"fmt"
	"go/token"
	"go/types"
	"strings"

	"golang.org/x/tools/go/ssa"
)

func (ex *Executor) eval(st *State, fr *frame, v ssa.Value) Value {
	switch x := v.(type) {
	case *ssa.Alloc:
		c := ex.newCell(st, ex.zero(x.Type().(*types.Pointer).Elem()))
		return &PtrV{Cell: c}
	case *ssa.UnOp:
		return ex.unop(st, fr, x)
	case *ssa.BinOp:
		return ex.binop(st, fr, x.Op, ex.get(st, fr, x.X), ex.get(st, fr, x.Y), x.X.Type(), x.Pos())
	case *ssa.FieldAddr:
		base := ex.get(st, fr, x.X)
		pt := x.X.Type().Underlying().(*types.Pointer).Elem()
		stt := pt.Underlying().(*types.Struct)
		fld := stt.Field(x.Field)
		switch b := base.(type) {
		case *PtrV:
			return &PtrV{Cell: b.Cell, Path: append(append([]PathElem(nil), b.Path...), PathElem{Field: x.Field})}
		case *LocV:
			return &LocV{Base: b.Base, Path: b.Path + "." + fld.Name(), Idx: b.Idx, T: fld.Type()}
		case *Term:
			ex.nilCheck(st, b, "nil dereference (field "+fld.Name()+")", x.Pos())
			return &LocV{Base: b, Path: "f!" + typeTag(pt) + "." + fld.Name(), T: fld.Type()}
		case *ReqV:
			return &LocV{Base: b.Base, Path: "f!http.Request." + fld.Name(), T: fld.Type()}
		}
		st.Note("FieldAddr on %s", showValue(base))
		return &UnknownV{Why: "fieldaddr"}
	case *ssa.Field:
		base := ex.get(st, fr, x.X)
		if sv, ok := base.(*StructV); ok && x.Field < len(sv.F) {
			return sv.F[x.Field]
		}
		st.Note("Field on %s", showValue(base))
		return ex.havoc(st, x.Type(), "fld")
	case *ssa.IndexAddr:
		return ex.indexAddr(st, fr, x)
	case *ssa.Index:
		base := ex.get(st, fr, x.X)
		idx := ex.get(st, fr, x.Index)
		return ex.indexValue(st, base, idx, x.Type(), x.Pos())
	case *ssa.Lookup:
		return ex.lookup(st, fr, x)
	case *ssa.Extract:
		t := ex.get(st, fr, x.Tuple)
		if tv, ok := t.(*TupleV); ok && x.Index < len(tv.V) {
			return tv.V[x.Index]
		}
		st.Note("Extract from %s", showValue(t))
		return ex.havoc(st, x.Type(), "ext")
	case *ssa.Phi:
		return fr.regs[x]
	case *ssa.MakeInterface:
		return &IfaceV{Dyn: x.X.Type(), V: ex.get(st, fr, x.X)}
	case *ssa.ChangeInterface:
		return ex.get(st, fr, x.X)
	case *ssa.ChangeType:
		return ex.get(st, fr, x.X)
	case *ssa.Convert:
		return ex.convert(st, ex.get(st, fr, x.X), x.X.Type(), x.Type())
	case *ssa.MultiConvert:
		return ex.convert(st, ex.get(st, fr, x.X), x.X.Type(), x.Type())
	case *ssa.TypeAssert:
		return ex.typeAssert(st, fr, x)
	case *ssa.MakeClosure:
		cv := &ClosureV{Fn: x.Fn.(*ssa.Function)}
		for _, b := range x.Bindings {
			cv.Bind = append(cv.Bind, ex.get(st, fr, b))
		}
		return cv
	case *ssa.MakeMap:
		mt := x.Type().Underlying().(*types.Map)
		c := ex.newCell(st, &MapData{T: mt})
		return &MapV{Cell: c}
	case *ssa.MakeSlice:
		return ex.makeSlice(st, fr, x)
	case *ssa.Slice:
		return ex.sliceOp(st, fr, x)
	case *ssa.Range:
		return &RangeV{X: ex.get(st, fr, x.X), Name: x.Name()}
	case *ssa.Next:
		return ex.next(st, fr, x)
	case *ssa.MakeChan:
		st.Note("make chan")
		return ex.Fresh("chan", SInt)
	case *ssa.Select:
		st.Note("select")
		return ex.havoc(st, x.Type(), "sel")
	case *ssa.SliceToArrayPointer:
		st.Note("slice to array pointer")
		return &UnknownV{Why: "slice2arrptr"}
	}
	st.Note("unhandled value %T", v)
	return ex.havoc(st, v.Type(), "unk")
}

func (ex *Executor) nilCheck(st *State, ref *Term, what string, pos token.Pos) {
	ok := Neq(ref, IntLit(0))
	if ok == TTrue {
		return
	}
	if ex.AssumeNonNil != nil {
		// wiring assumption on every leaf of an ite-merged reference
		for _, leaf := range iteLeaves(ref) {
			if ex.AssumeNonNil(leaf) {
				st.Fact(Neq(leaf, IntLit(0)))
			}
		}
		if ex.AssumeNonNil(ref) {
			return
		}
	}
	ex.safetyQueue(st, ok, what, pos)
}

// safetyQueue registers a potential run-time panic on this path. The failing
// part is forked off as a pending panic outcome; the path continues under ok.
func (ex *Executor) safetyQueue(st *State, ok *Term, what string, pos token.Pos) {
	if ok == TTrue {
		return
	}
	bad := st.Clone()
	bad.Assume(Not(ok))
	if !bad.Infeasible() {
		bad.Emit("Panic", []Value{StrLit(what + " at " + ex.pos(pos))}, nil, ex.pos(pos))
		ex.pendingPanics = append(ex.pendingPanics, callResult{St: bad, Panic: true})
	}
	st.Assume(ok)
}

func (ex *Executor) unop(st *State, fr *frame, x *ssa.UnOp) Value {
	v := ex.get(st, fr, x.X)
	switch x.Op {
	case token.MUL: // load
		return ex.load(st, v, x.Type())
	case token.NOT:
		if t, ok := v.(*Term); ok && t.S == SBool {
			return Not(t)
		}
	case token.SUB:
		if t, ok := v.(*Term); ok && t.S == SInt {
			return Sub(IntLit(0), t)
		}
	case token.ARROW:
		st.Note("channel receive")
		return ex.havoc(st, x.Type(), "recv")
	case token.XOR:
		if t, ok := v.(*Term); ok && t.S == SInt {
			return Sub(Sub(IntLit(0), t), IntLit(1))
		}
	}
	st.Note("unop %s on %s", x.Op, showValue(v))
	return ex.havoc(st, x.Type(), "unop")
}

func (ex *Executor) isNil(st *State, v Value) *Term {
	switch x := v.(type) {
	case *Term:
		if x.S == SInt {
			return Eq(x, IntLit(0))
		}
	case *IfaceV, *PtrV, *LocV, *MapV, *ClosureV, *FuncV, *BoundV, *ReqV, *CtxV:
		return TFalse
	case *SliceV:
		return BoolLit(x.Nil)
	case *SymSliceV:
		if x.Ref != nil {
			return Eq(x.Ref, IntLit(0))
		}
		return ex.Fresh("isnil", SBool)
	case *BytesV:
		// nil-ness of byte slices is not tracked; len==0 is a sound
		// over-approximation only for the idiom `b == nil` after a failed call
		return ex.Fresh("isnil", SBool)
	case *BufV:
		return TFalse
	}
	st.Note("nil test of %s", showValue(v))
	return ex.Fresh("isnil", SBool)
}

func isNilConst(v Value) bool {
	if t, ok := v.(*Term); ok && t.Lit && t.S == SInt && t.Op == "0" {
		return true
	}
	if s, ok := v.(*SliceV); ok && s.Nil {
		return true
	}
	return false
}

func (ex *Executor) binop(st *State, fr *frame, op token.Token, a, b Value, opT types.Type, pos token.Pos) Value {
	ta, aok := a.(*Term)
	tb, bok := b.(*Term)
	// equality on non-scalar representations
	if op == token.EQL || op == token.NEQ {
		var eq *Term
		switch {
		case aok && bok && ta.S == tb.S:
			eq = Eq(ta, tb)
		case isNilConst(b):
			eq = ex.isNil(st, a)
		case isNilConst(a):
			eq = ex.isNil(st, b)
		default:
			eq = ex.valuesEqual(st, a, b)
		}
		if op == token.NEQ {
			return Not(eq)
		}
		return eq
	}
	if aok && bok {
		if ta.S == SBool {
			switch op {
			case token.AND, token.LAND:
				return And(ta, tb)
			case token.OR, token.LOR:
				return Or(ta, tb)
			}
		}
		if ta.S == SStr && tb.S == SStr {
			switch op {
			case token.ADD:
				return StrCat(ta, tb)
			case token.LSS:
				return Builtin("str.<", SBool, ta, tb)
			case token.LEQ:
				return Builtin("str.<=", SBool, ta, tb)
			case token.GTR:
				return Builtin("str.<", SBool, tb, ta)
			case token.GEQ:
				return Builtin("str.<=", SBool, tb, ta)
			}
		}
		if ta.S == SInt && tb.S == SInt {
			switch op {
			case token.ADD:
				return Add(ta, tb)
			case token.SUB:
				return Sub(ta, tb)
			case token.MUL:
				return Mul(ta, tb)
			case token.QUO:
				ex.safetyQueue(st, Neq(tb, IntLit(0)), "division by zero", pos)
				return goDiv(ta, tb)
			case token.REM:
				ex.safetyQueue(st, Neq(tb, IntLit(0)), "division by zero", pos)
				return goRem(ta, tb)
			case token.LSS:
				return Lt(ta, tb)
			case token.LEQ:
				return Le(ta, tb)
			case token.GTR:
				return Gt(ta, tb)
			case token.GEQ:
				return Ge(ta, tb)
			case token.AND:
				return bitAnd(ta, tb)
			case token.OR:
				return bitOr(ta, tb)
			case token.XOR:
				return App("bitxor", SInt, ta, tb)
			case token.SHL:
				if n, ok := tb.IntVal(); ok && n >= 0 && n < 62 {
					return Mul(ta, IntLit(1<<uint(n)))
				}
				return App("shl", SInt, ta, tb)
			case token.SHR:
				if n, ok := tb.IntVal(); ok && n >= 0 && n < 62 {
					return Builtin("div", SInt, ta, IntLit(1<<uint(n)))
				}
				return App("shr", SInt, ta, tb)
			case token.AND_NOT:
				return App("bitandnot", SInt, ta, tb)
			}
		}
		if ta.S == "Real" && tb.S == "Real" {
			switch op {
			case token.ADD:
				return Builtin("+", "Real", ta, tb)
			case token.SUB:
				return Builtin("-", "Real", ta, tb)
			case token.MUL:
				return Builtin("*", "Real", ta, tb)
			case token.QUO:
				return Builtin("/", "Real", ta, tb)
			case token.LSS:
				return Builtin("<", SBool, ta, tb)
			case token.LEQ:
				return Builtin("<=", SBool, ta, tb)
			case token.GTR:
				return Builtin(">", SBool, ta, tb)
			case token.GEQ:
				return Builtin(">=", SBool, ta, tb)
			}
		}
	}
	st.Note("binop %s on %s, %s", op, showValue(a), showValue(b))
	if op == token.LSS || op == token.LEQ || op == token.GTR || op == token.GEQ {
		return ex.Fresh("cmp", SBool)
	}
	return ex.havoc(st, opT, "binop")
}

// bitAnd: x & m for a literal mask m = 2^k (single bit) is encoded with
// div/mod; other masks are uninterpreted.
func bitAnd(a, b *Term) *Term {
	if x, ok := a.IntVal(); ok {
		if y, ok := b.IntVal(); ok && x >= 0 && y >= 0 {
			return IntLit(x & y)
		}
	}
	if m, ok := b.IntVal(); ok && m > 0 && m&(m-1) == 0 {
		// ((a div m) mod 2) * m
		return Mul(Builtin("mod", SInt, Builtin("div", SInt, a, IntLit(m)), IntLit(2)), IntLit(m))
	}
	if m, ok := a.IntVal(); ok && m > 0 && m&(m-1) == 0 {
		return bitAnd(b, a)
	}
	return App("bitand", SInt, a, b)
}

// bitOr: x | m = x + m - (x & m) for a single-bit literal mask m.
func bitOr(a, b *Term) *Term {
	if x, ok := a.IntVal(); ok {
		if y, ok := b.IntVal(); ok && x >= 0 && y >= 0 {
			return IntLit(x | y)
		}
	}
	if m, ok := b.IntVal(); ok && m > 0 && m&(m-1) == 0 {
		return Sub(Add(a, b), bitAnd(a, b))
	}
	if m, ok := a.IntVal(); ok && m > 0 && m&(m-1) == 0 {
		return bitOr(b, a)
	}
	return App("bitor", SInt, a, b)
}

// Go's integer division truncates toward zero; SMT div floors for positive
// divisor. Encode exactly.
func goDiv(a, b *Term) *Term {
	if x, ok := a.IntVal(); ok {
		if y, ok := b.IntVal(); ok && y != 0 {
			return IntLit(x / y)
		}
	}
	q := Builtin("div", SInt, a, b)
	// SMT-LIB div: a = b*q + r, 0 <= r < |b|. Go: truncation.
	// if a >= 0: same. if a < 0 and r != 0: go = q+1 (b>0) or q-1 (b<0)
	r := Builtin("mod", SInt, a, b)
	adj := Ite(Gt(b, IntLit(0)), Add(q, IntLit(1)), Sub(q, IntLit(1)))
	return Ite(Or(Ge(a, IntLit(0)), Eq(r, IntLit(0))), q, adj)
}

func goRem(a, b *Term) *Term {
	if x, ok := a.IntVal(); ok {
		if y, ok := b.IntVal(); ok && y != 0 {
			return IntLit(x % y)
		}
	}
	return Sub(a, Mul(b, goDiv(a, b)))
}

func (ex *Executor) valuesEqual(st *State, a, b Value) *Term {
	switch x := a.(type) {
	case *IfaceV:
		switch y := b.(type) {
		case *IfaceV:
			if !types.Identical(x.Dyn, y.Dyn) {
				return TFalse
			}
			return ex.valuesEqual(st, x.V, y.V)
		case *Term:
			return Eq(ex.asTerm(st, x), y)
		}
	case *Term:
		if y, ok := b.(*IfaceV); ok {
			return Eq(x, ex.asTerm(st, y))
		}
		if y, ok := b.(*Term); ok && x.S == y.S {
			return Eq(x, y)
		}
	case *StructV:
		if y, ok := b.(*StructV); ok && len(x.F) == len(y.F) {
			var cs []*Term
			for i := range x.F {
				cs = append(cs, ex.valuesEqual(st, x.F[i], y.F[i]))
			}
			return And(cs...)
		}
	case *PtrV:
		if y, ok := b.(*PtrV); ok {
			return BoolLit(x.Cell == y.Cell && fmt.Sprint(x.Path) == fmt.Sprint(y.Path))
		}
		return TFalse
	case *TimeV:
		if y, ok := b.(*TimeV); ok {
			return Eq(x.T, y.T)
		}
	case *BytesV:
		if y, ok := b.(*BytesV); ok {
			return Eq(x.T, y.T)
		}
	case *ReqV:
		if y, ok := b.(*ReqV); ok {
			return Eq(ex.asTerm(st, x), ex.asTerm(st, y))
		}
	}
	st.Note("equality of %s and %s", showValue(a), showValue(b))
	return ex.Fresh("eq", SBool)
}

func (ex *Executor) convert(st *State, v Value, from, to types.Type) Value {
	fu, tu := from.Underlying(), to.Underlying()
	// string <-> []byte
	if isByteSlice(to) {
		if t, ok := v.(*Term); ok && t.S == SStr {
			return &BytesV{T: t}
		}
	}
	if tb, ok := tu.(*types.Basic); ok && tb.Info()&types.IsString != 0 {
		switch x := v.(type) {
		case *BytesV:
			return x.T
		case *BufV:
			return ex.bufContent(st, x)
		case *Term:
			if x.S == SStr {
				return x
			}
			if x.S == SInt {
				// string(rune)
				return Builtin("str.from_code", SStr, x)
			}
		}
	}
	if t, ok := v.(*Term); ok {
		fb, fok := fu.(*types.Basic)
		tb, tok := tu.(*types.Basic)
		if fok && tok {
			if fb.Info()&types.IsInteger != 0 && tb.Info()&types.IsInteger != 0 {
				// integer conversions are value preserving under the
				// mathematical-integer assumption
				return t
			}
			if fb.Info()&types.IsInteger != 0 && tb.Info()&types.IsFloat != 0 {
				return Builtin("to_real", "Real", t)
			}
			if fb.Info()&types.IsFloat != 0 && tb.Info()&types.IsInteger != 0 {
				return Builtin("to_int", SInt, t)
			}
			if fb.Info()&types.IsFloat != 0 && tb.Info()&types.IsFloat != 0 {
				return t
			}
		}
		if _, ok := scalarSort(to); ok {
			return t
		}
	}
	if _, ok := v.(*StructV); ok {
		return v
	}
	st.Note("convert %s -> %s of %s", from, to, showValue(v))
	return v
}

func (ex *Executor) typeAssert(st *State, fr *frame, x *ssa.TypeAssert) Value {
	v := ex.get(st, fr, x.X)
	at := x.AssertedType
	var ok *Term
	var res Value
	switch iv := v.(type) {
	case *IfaceV:
		if _, isIface := at.Underlying().(*types.Interface); isIface {
			if types.Implements(iv.Dyn, at.Underlying().(*types.Interface)) {
				ok, res = TTrue, iv
			} else {
				ok, res = TFalse, ex.zero(at)
			}
		} else if types.Identical(iv.Dyn, at) {
			ok, res = TTrue, iv.V
		} else {
			ok, res = TFalse, ex.zero(at)
		}
	case *Term:
		if iv.S != SInt {
			// an unboxed scalar flowing through an interface-typed register
			if s, isScalar := scalarSort(at); isScalar && s == iv.S {
				ok, res = TTrue, iv
			} else if _, isIface := at.Underlying().(*types.Interface); isIface {
				ok, res = TTrue, iv
			} else {
				ok, res = TFalse, ex.zero(at)
			}
			break
		}
		tag := typeTag(at)
		ok = App("is!"+tag, SBool, iv)
		if types.Identical(x.X.Type(), at) {
			ok = Neq(iv, IntLit(0)) // same static type: only a nil check
		}
		st.Fact(Implies(ok, Neq(iv, IntLit(0))))
		holds := ex.TypeHolds != nil && ex.TypeHolds(at)
		if holds && x.CommaOk {
			// v, ok := x.(T) is a genuine test, except inside the Must*/EnsureCan*
			// upgrade helpers, whose panic branch is excluded by wiring (wf_types)
			n := fr.fn.Name()
			if !(strings.HasPrefix(n, "Must") || strings.HasPrefix(n, "EnsureCan")) {
				holds = false
			}
		}
		if ex.AssumeNonNil != nil {
			for _, leaf := range iteLeaves(iv) {
				if ex.AssumeNonNil(leaf) {
					st.Fact(Neq(leaf, IntLit(0)))
				}
			}
		}
		if holds {
			// well-formedness assumption: every non-nil value flowing here
			// implements the asserted interface
			ok = Neq(iv, IntLit(0))
		}
		if _, isIface := at.Underlying().(*types.Interface); isIface {
			res = iv
		} else if s, isScalar := scalarSort(at); isScalar {
			if _, isPtr := at.Underlying().(*types.Pointer); isPtr {
				res = iv
			} else if s == SInt && !isBasic(at) {
				res = iv
			} else {
				res = App("unbox!"+s+"!"+tag, s, iv)
			}
		} else {
			res = ex.havoc(st, at, "ta")
		}
	case *CtxV, *ReqV:
		ok, res = TTrue, v
	case *UnknownV:
		ok, res = ex.Fresh("ta_ok", SBool), ex.havoc(st, at, "ta")
	default:
		// concrete non-interface representation flowing through an interface typed register
		ok, res = TTrue, v
	}
	if x.CommaOk {
		if rt, isT := res.(*Term); isT && rt.S == SInt && ok.String() == Neq(rt, IntLit(0)).String() {
			// ok <=> res != nil: ite(ok, res, nil) == res
		} else if ok != TTrue {
			res = ex.iteValue(st, ok, res, ex.zero(at))
		}
		return &TupleV{V: []Value{res, ok}}
	}
	ex.safetyQueue(st, ok, "type assertion to "+types.TypeString(at, shortQual)+" fails", x.Pos())
	return res
}

func isBasic(t types.Type) bool {
	_, ok := t.Underlying().(*types.Basic)
	return ok
}

func (ex *Executor) iteValue(st *State, c *Term, a, b Value) Value {
	if c == TTrue {
		return a
	}
	if c == TFalse {
		return b
	}
	ta, aok := a.(*Term)
	tb, bok := b.(*Term)
	if aok && bok && ta.S == tb.S {
		return Ite(c, ta, tb)
	}
	if x, ok := a.(*TimeV); ok {
		if y, ok := b.(*TimeV); ok {
			return &TimeV{T: Ite(c, x.T, y.T)}
		}
	}
	if x, ok := a.(*BytesV); ok {
		if y, ok := b.(*BytesV); ok {
			return &BytesV{T: Ite(c, x.T, y.T)}
		}
	}
	// not representable: keep the success value (the failing side is only
	// observable after testing ok, which the program must do)
	return a
}

// ---------------------------------------------------------------------------
// slices, arrays, maps

func (ex *Executor) indexAddr(st *State, fr *frame, x *ssa.IndexAddr) Value {
	base := ex.get(st, fr, x.X)
	idxV := ex.get(st, fr, x.Index)
	idx, _ := idxV.(*Term)
	if idx == nil {
		return &UnknownV{Why: "index"}
	}
	switch b := base.(type) {
	case *PtrV: // pointer to array
		if n, ok := idx.IntVal(); ok {
			return &PtrV{Cell: b.Cell, Path: append(append([]PathElem(nil), b.Path...), PathElem{Field: -1, Index: int(n)})}
		}
	case *SliceV:
		if n, ok := idx.IntVal(); ok {
			if b.Nil || int(n) < 0 || b.Lo+int(n) >= b.Hi {
				ex.safetyQueue(st, TFalse, "index out of range", x.Pos())
				return &UnknownV{Why: "oob"}
			}
			return &PtrV{Cell: b.Cell, Path: []PathElem{{Field: -1, Index: b.Lo + int(n)}}}
		}
		// symbolic index into a concrete slice
		ln := IntLit(int64(b.Hi - b.Lo))
		ex.safetyQueue(st, And(Ge(idx, IntLit(0)), Lt(idx, ln)), "index out of range", x.Pos())
		return &symElemAddr{S: b, Idx: idx}
	case *SymSliceV:
		ex.safetyQueue(st, And(Ge(idx, IntLit(0)), Lt(idx, b.Len)), "index out of range", x.Pos())
		return &symElemAddr{Sym: b, Idx: idx}
	case *BytesV:
		ex.safetyQueue(st, And(Ge(idx, IntLit(0)), Lt(idx, StrLen(b.T))), "index out of range", x.Pos())
		return &symElemAddr{Bytes: b, Idx: idx}
	case *BufV:
		ex.safetyQueue(st, And(Ge(idx, IntLit(0)), Lt(idx, Sub(b.Hi, b.Lo))), "index out of range", x.Pos())
		return &symElemAddr{Buf: b, Idx: idx}
	case *LocV:
		// pointer to opaque array
		return &LocV{Base: b.Base, Path: b.Path + "[]", Idx: append(append([]*Term(nil), b.Idx...), idx), T: x.Type().(*types.Pointer).Elem()}
	case *Term:
		// opaque slice of composites: elements addressed by (ref, idx)
		ln := App("slen", SInt, b)
		st.Fact(Ge(ln, IntLit(0)))
		ex.safetyQueue(st, And(Ge(idx, IntLit(0)), Lt(idx, ln)), "index out of range", x.Pos())
		return &LocV{Base: b, Path: "elem!" + typeTag(x.Type().(*types.Pointer).Elem()), Idx: []*Term{idx}, T: x.Type().(*types.Pointer).Elem()}
	}
	st.Note("IndexAddr on %s", showValue(base))
	return &UnknownV{Why: "indexaddr"}
}

// symElemAddr is the address of an element selected by a symbolic index.
type symElemAddr struct {
	S     *SliceV
	Sym   *SymSliceV
	Bytes *BytesV
	Buf   *BufV
	Idx   *Term
}

func (ex *Executor) indexValue(st *State, base, idxV Value, t types.Type, pos token.Pos) Value {
	idx, _ := idxV.(*Term)
	switch b := base.(type) {
	case *Term:
		if b.S == SStr && idx != nil {
			ex.safetyQueue(st, And(Ge(idx, IntLit(0)), Lt(idx, StrLen(b))), "index out of range", pos)
			return Builtin("str.to_code", SInt, Builtin("str.at", SStr, b, idx))
		}
	case *ArrayV:
		if n, ok := idx.IntVal(); ok && int(n) < len(b.E) {
			return b.E[n]
		}
	}
	st.Note("Index on %s", showValue(base))
	return ex.havoc(st, t, "idx")
}

func (ex *Executor) loadElem(st *State, a *symElemAddr, t types.Type) Value {
	switch {
	case a.Sym != nil:
		return Select(ex.symArr(st, a.Sym), a.Idx)
	case a.Bytes != nil:
		return Builtin("str.to_code", SInt, Builtin("str.at", SStr, a.Bytes.T, a.Idx))
	case a.Buf != nil:
		c := ex.bufContent(st, a.Buf)
		return Builtin("str.to_code", SInt, Builtin("str.at", SStr, c, a.Idx))
	case a.S != nil:
		arr, _ := st.Cells[a.S.Cell].(*ArrayV)
		if arr == nil {
			break
		}
		// ite chain over the concrete elements
		var res Value
		for i := a.S.Hi - 1; i >= a.S.Lo; i-- {
			e := arr.E[i]
			if res == nil {
				res = e
				continue
			}
			res = ex.iteValue(st, Eq(a.Idx, IntLit(int64(i-a.S.Lo))), e, res)
		}
		if res != nil {
			return res
		}
	}
	return ex.havoc(st, t, "elem")
}

func (ex *Executor) bufFull(st *State, b *BufV) *Term {
	switch c := st.Cells[b.Cell].(type) {
	case *Term:
		return c
	case *BytesV:
		return c.T
	}
	return nil
}

func (ex *Executor) bufSetFull(st *State, b *BufV, nw *Term) {
	if _, ok := st.Cells[b.Cell].(*BytesV); ok {
		st.Cells[b.Cell] = &BytesV{T: nw}
		return
	}
	st.Cells[b.Cell] = nw
}

// bufWrite overwrites len(data) bytes at offset pos (relative to the view b).
func (ex *Executor) bufWrite(st *State, b *BufV, pos, data *Term) {
	full := ex.bufFull(st, b)
	if full == nil {
		st.Note("write into unknown buffer")
		return
	}
	p := Add(b.Lo, pos)
	end := Add(p, StrLen(data))
	expr := StrCat(StrSub(full, IntLit(0), p), data, StrSub(full, end, Sub(StrLen(full), end)))
	nw := expr
	if len(expr.String()) > 200 {
		// definitional naming keeps terms small
		nw = ex.Fresh("buf", SStr)
		if ex.Defs == nil {
			ex.Defs = map[string]*Term{}
		}
		ex.Defs[nw.Op] = expr
		st.Fact(Eq(nw, expr))
		st.Fact(Eq(StrLen(nw), StrLen(full)))
	}
	ex.bufSetFull(st, b, nw)
}

func (ex *Executor) bufContent(st *State, b *BufV) *Term {
	c := ex.bufFull(st, b)
	if c == nil {
		return ex.Fresh("buf", SStr)
	}
	if lo, ok := b.Lo.IntVal(); ok && lo == 0 && Eq(b.Hi, StrLen(c)) == TTrue {
		return c
	}
	return StrSub(c, b.Lo, Sub(b.Hi, b.Lo))
}

func (ex *Executor) makeSlice(st *State, fr *frame, x *ssa.MakeSlice) Value {
	ln, _ := ex.get(st, fr, x.Len).(*Term)
	if ln == nil {
		return &UnknownV{Why: "makeslice len"}
	}
	st1 := x.Type().Underlying().(*types.Slice)
	if isByteSlice(x.Type()) {
		c := ex.Fresh("zeros", SStr)
		st.Fact(Eq(StrLen(c), ln))
		cell := ex.newCell(st, c)
		return &BufV{Cell: cell, Lo: IntLit(0), Hi: ln}
	}
	if n, ok := ln.IntVal(); ok && n <= 64 {
		av := &ArrayV{}
		for i := int64(0); i < n; i++ {
			av.E = append(av.E, ex.zero(st1.Elem()))
		}
		cell := ex.newCell(st, av)
		return &SliceV{Cell: cell, Lo: 0, Hi: int(n)}
	}
	if es, ok := scalarSort(st1.Elem()); ok {
		// symbolic length slice of scalars, zero-initialised content is not
		// tracked (content is arbitrary: over-approximation)
		arr := ex.Fresh("mkarr", SArr(SInt, es))
		return ex.newSymSlice(st, arr, ln, st1.Elem())
	}
	st.Note("make slice of %s with symbolic length", st1.Elem())
	return ex.Fresh("mkslice", SInt)
}

func (ex *Executor) sliceOp(st *State, fr *frame, x *ssa.Slice) Value {
	base := ex.get(st, fr, x.X)
	var lo, hi *Term
	if x.Low != nil {
		lo, _ = ex.get(st, fr, x.Low).(*Term)
	}
	if x.High != nil {
		hi, _ = ex.get(st, fr, x.High).(*Term)
	}
	switch b := base.(type) {
	case *PtrV: // pointer to array -> slice
		arr, _ := ex.load(st, b, nil).(*ArrayV)
		if arr != nil && len(b.Path) == 0 {
			l, h := 0, len(arr.E)
			if lo != nil {
				if n, ok := lo.IntVal(); ok {
					l = int(n)
				}
			}
			if hi != nil {
				if n, ok := hi.IntVal(); ok {
					h = int(n)
				}
			}
			return &SliceV{Cell: b.Cell, Lo: l, Hi: h}
		}
		if bv, ok := ex.load(st, b, nil).(*BytesV); ok {
			if len(b.Path) == 0 {
				l, h := IntLit(0), StrLen(bv.T)
				if lo != nil {
					l = lo
				}
				if hi != nil {
					h = hi
				}
				return &BufV{Cell: b.Cell, Lo: l, Hi: h}
			}
			return ex.sliceBytes(st, bv.T, lo, hi, x.Pos())
		}
	case *SliceV:
		l, h := b.Lo, b.Hi
		okc := true
		if lo != nil {
			if n, ok := lo.IntVal(); ok {
				l = b.Lo + int(n)
			} else {
				okc = false
			}
		}
		if hi != nil {
			if n, ok := hi.IntVal(); ok {
				h = b.Lo + int(n)
			} else {
				okc = false
			}
		}
		if okc {
			if l > h || h > b.Hi && !b.Nil {
				ex.safetyQueue(st, TFalse, "slice bounds out of range", x.Pos())
			}
			return &SliceV{Cell: b.Cell, Lo: l, Hi: h, Nil: b.Nil}
		}
		// symbolic bounds on a concrete slice: convert to symbolic slice
		if sym := ex.toSymSlice(st, b, x.Type()); sym != nil {
			return ex.sliceSym(st, sym, lo, hi, x.Pos())
		}
	case *BytesV:
		return ex.sliceBytes(st, b.T, lo, hi, x.Pos())
	case *Term:
		if b.S == SStr {
			r := ex.sliceBytes(st, b, lo, hi, x.Pos())
			return r.(*BytesV).T
		}
	case *BufV:
		l, h := b.Lo, b.Hi
		if lo != nil {
			l = Add(b.Lo, lo)
		}
		if hi != nil {
			h = Add(b.Lo, hi)
		}
		ex.safetyQueue(st, And(Le(b.Lo, l), Le(l, h), Le(h, b.Hi)), "slice bounds out of range", x.Pos())
		return &BufV{Cell: b.Cell, Lo: l, Hi: h}
	case *SymSliceV:
		return ex.sliceSym(st, b, lo, hi, x.Pos())
	}
	st.Note("Slice on %s", showValue(base))
	return ex.havoc(st, x.Type(), "slice")
}

func (ex *Executor) sliceBytes(st *State, s, lo, hi *Term, pos token.Pos) Value {
	if lo == nil {
		lo = IntLit(0)
	}
	if hi == nil {
		hi = StrLen(s)
	}
	ex.safetyQueue(st, And(Le(IntLit(0), lo), Le(lo, hi), Le(hi, StrLen(s))), "slice bounds out of range", pos)
	if l, ok := lo.IntVal(); ok && l == 0 && Eq(hi, StrLen(s)) == TTrue {
		return &BytesV{T: s}
	}
	return &BytesV{T: StrSub(s, lo, Sub(hi, lo))}
}

func (ex *Executor) toSymSlice(st *State, b *SliceV, t types.Type) *SymSliceV {
	sl, ok := t.Underlying().(*types.Slice)
	if !ok {
		return nil
	}
	es, ok := scalarSort(sl.Elem())
	if !ok {
		return nil
	}
	arr := ex.Fresh("arr", SArr(SInt, es))
	var cur *Term = arr
	if !b.Nil {
		av, _ := st.Cells[b.Cell].(*ArrayV)
		if av == nil {
			return nil
		}
		for i := b.Lo; i < b.Hi; i++ {
			e, ok := av.E[i].(*Term)
			if !ok {
				if _, isIface := av.E[i].(*IfaceV); isIface && es == SInt {
					e = ex.asTerm(st, av.E[i])
				} else {
					return nil
				}
			}
			if e.S != es {
				return nil
			}
			cur = Store(cur, IntLit(int64(i-b.Lo)), e)
		}
	}
	return &SymSliceV{Arr: cur, Len: IntLit(int64(b.Hi - b.Lo)), ElemT: sl.Elem()}
}

func (ex *Executor) sliceSym(st *State, b *SymSliceV, lo, hi *Term, pos token.Pos) Value {
	if lo == nil {
		lo = IntLit(0)
	}
	if hi == nil {
		hi = b.Len
	}
	// capacity is not modelled: hi <= len is required (stricter than Go,
	// which allows hi <= cap); stated in DESIGN 2.3
	ex.safetyQueue(st, And(Le(IntLit(0), lo), Le(lo, hi), Le(hi, b.Len)), "slice bounds out of range", pos)
	if b.Cell != 0 {
		off := lo
		if b.Off != nil {
			off = Add(b.Off, lo)
		}
		return &SymSliceV{Cell: b.Cell, Off: off, Arr: b.Arr, Len: Sub(hi, lo), ElemT: b.ElemT}
	}
	if l, ok := lo.IntVal(); ok && l == 0 {
		return &SymSliceV{Arr: b.Arr, Len: hi, ElemT: b.ElemT}
	}
	es := elemSort(b.Arr.S)
	// shifted view: arr'[i] = arr[i+lo]
	na := App("shift!"+es, b.Arr.S, b.Arr, lo)
	return &SymSliceV{Arr: na, Len: Sub(hi, lo), ElemT: b.ElemT}
}

func (ex *Executor) mapData(st *State, m Value) (*MapData, int) {
	if mv, ok := m.(*MapV); ok {
		md, _ := st.Cells[mv.Cell].(*MapData)
		return md, mv.Cell
	}
	return nil, 0
}

func (ex *Executor) mapUpdate(st *State, m, k, v Value) {
	md, cell := ex.mapData(st, m)
	if md == nil {
		if t, ok := m.(*Term); ok {
			st.Emit("MapWrite", []Value{t, k, v}, nil, "")
			return
		}
		st.Note("map update on %s", showValue(m))
		return
	}
	nd := &MapData{Base: md.Base, T: md.T, Upd: append(append([]MapEntry(nil), md.Upd...), MapEntry{K: k, V: v})}
	st.Cells[cell] = nd
}

func (ex *Executor) lookup(st *State, fr *frame, x *ssa.Lookup) Value {
	m := ex.get(st, fr, x.X)
	k := ex.get(st, fr, x.Index)
	// string indexing
	if s, ok := m.(*Term); ok && s.S == SStr {
		return ex.indexValue(st, s, k, x.Type(), x.Pos())
	}
	mt, _ := x.X.Type().Underlying().(*types.Map)
	if mt == nil {
		return ex.havoc(st, x.Type(), "lookup")
	}
	val, found := ex.mapLookup(st, m, k, mt)
	if x.CommaOk {
		return &TupleV{V: []Value{val, found}}
	}
	return val
}

func (ex *Executor) mapLookup(st *State, m, k Value, mt *types.Map) (Value, *Term) {
	md, _ := ex.mapData(st, m)
	var val Value
	var found *Term
	if md != nil && md.Base == nil {
		val, found = ex.zero(mt.Elem()), TFalse
	} else {
		var base *Term
		if md != nil {
			base = md.Base
		} else if t, ok := m.(*Term); ok {
			base = t
		}
		if base == nil {
			st.Note("lookup in %s", showValue(m))
			return ex.havoc(st, mt.Elem(), "lk"), ex.Fresh("lkok", SBool)
		}
		kt := ex.asTerm(st, k)
		found = App("map!has!"+kt.S, SBool, base, kt)
		st.Fact(Implies(Eq(base, IntLit(0)), Not(found)))
		if s, ok := scalarSort(mt.Elem()); ok {
			g := App("map!get!"+kt.S+"!"+s, s, base, kt)
			if sl, isSl := mt.Elem().Underlying().(*types.Slice); isSl {
				if es, ok := scalarSort(sl.Elem()); ok {
					val = ex.symSliceOfRef(st, g, sl.Elem(), es)
				} else {
					val = g
				}
			} else {
				val = g
				if zt, ok := ex.zero(mt.Elem()).(*Term); ok {
					st.Fact(Implies(Not(found), Eq(g, zt)))
				}
			}
		} else {
			val = ex.havoc(st, mt.Elem(), "mapval")
		}
	}
	if md != nil {
		for _, u := range md.Upd {
			eq := ex.valuesEqual(st, u.K, k)
			if u.Del {
				val = ex.iteValue(st, eq, ex.zero(mt.Elem()), val)
				found = Ite(eq, TFalse, found)
			} else {
				val = ex.iteValueOrKeep(st, eq, u.V, val)
				found = Ite(eq, TTrue, found)
			}
		}
	}
	return val, found
}

func (ex *Executor) iteValueOrKeep(st *State, c *Term, a, b Value) Value {
	if c == TTrue {
		return a
	}
	if c == TFalse {
		return b
	}
	ta, aok := a.(*Term)
	tb, bok := b.(*Term)
	if aok && bok && ta.S == tb.S {
		return Ite(c, ta, tb)
	}
	// mixed representations (IfaceV vs term): go through terms
	return Ite(c, ex.asTerm(st, a), ex.asTerm(st, b))
}

func (ex *Executor) next(st *State, fr *frame, x *ssa.Next) Value {
	it, _ := ex.get(st, fr, x.Iter).(*RangeV)
	tt := x.Type().(*types.Tuple)
	if it == nil {
		return ex.havoc(st, tt, "next")
	}
	if x.IsString {
		st.Note("range over string (havoc)")
		return ex.havoc(st, tt, "next")
	}
	// range over map: concrete local maps are iterated in insertion order
	// (one representative order; order-sensitivity is not explored);
	// opaque maps yield arbitrary entries.
	md, _ := ex.mapData(st, it.X)
	mt, _ := typeOfMap(x)
	if md != nil && md.Base == nil {
		// concrete: handled by nextAlternatives (the run loop forks on which
		// update is the next live entry); reaching here means a caller outside
		// the run loop, answer with arbitrary entries
		st.Note("range over local map outside the run loop (havoc)")
		return ex.havoc(st, tt, "next")
	}
	ok := ex.Fresh("more", SBool)
	k := ex.havoc(st, tt.At(1).Type(), "rk")
	var v Value
	if mt != nil {
		var found *Term
		v, found = ex.mapLookup(st, it.X, k, mt)
		st.Fact(Implies(ok, found))
	} else {
		v = ex.havoc(st, tt.At(2).Type(), "rv")
	}
	return &TupleV{V: []Value{ok, k, v}}
}

func typeOfMap(x *ssa.Next) (*types.Map, bool) {
	r, ok := x.Iter.(*ssa.Range)
	if !ok {
		return nil, false
	}
	mt, ok := r.X.Type().Underlying().(*types.Map)
	return mt, ok
}

// liveCond: update i of a locally built map is an entry of the map as it
// stands iff it is not a delete and no later update (put or delete) has an
// equal key. Keys may be symbolic, so this is a term.
func liveCond(ex *Executor, st *State, md *MapData, i int) *Term {
	if md.Upd[i].Del {
		return TFalse
	}
	var cs []*Term
	for j := i + 1; j < len(md.Upd); j++ {
		cs = append(cs, Not(ex.valuesEqual(st, md.Upd[i].K, md.Upd[j].K)))
	}
	return And(cs...)
}

// mapLen: the exact length of a locally built map, Σ [live_i].
func mapLen(ex *Executor, st *State, md *MapData) *Term {
	n := IntLit(0)
	for i := range md.Upd {
		c := liveCond(ex, st, md, i)
		switch c {
		case TTrue:
			n = Add(n, IntLit(1))
		case TFalse:
		default:
			n = Add(n, Ite(c, IntLit(1), IntLit(0)))
		}
	}
	return n
}

func (ex *Executor) storeElem(st *State, a *symElemAddr, v Value) {
	switch {
	case a.Sym != nil && a.Sym.Cell != 0:
		if vt, ok := v.(*Term); ok {
			cur, _ := st.Cells[a.Sym.Cell].(*Term)
			if cur != nil && elemSort(cur.S) == vt.S {
				idx := a.Idx
				if a.Sym.Off != nil {
					idx = Add(a.Sym.Off, idx)
				}
				st.Cells[a.Sym.Cell] = Store(cur, idx, vt)
				return
			}
		}
	case a.S != nil:
		arr, _ := st.Cells[a.S.Cell].(*ArrayV)
		if arr == nil {
			break
		}
		n := &ArrayV{E: append([]Value(nil), arr.E...)}
		for i := a.S.Lo; i < a.S.Hi; i++ {
			n.E[i] = ex.iteValue(st, Eq(a.Idx, IntLit(int64(i-a.S.Lo))), v, arr.E[i])
		}
		st.Cells[a.S.Cell] = n
		return
	case a.Buf != nil:
		if vt, ok := v.(*Term); ok {
			ex.bufWrite(st, a.Buf, a.Idx, byteStr(vt))
			return
		}
	}
	st.Note("store through symbolic element address")
}

// symArr returns the array term currently denoted by a symbolic slice
// (element i of the slice is select(symArr, i)).
func (ex *Executor) symArr(st *State, s *SymSliceV) *Term {
	if s.Cell == 0 {
		return s.Arr
	}
	cur, _ := st.Cells[s.Cell].(*Term)
	if cur == nil {
		return s.Arr
	}
	if s.Off != nil {
		if n, ok := s.Off.IntVal(); !ok || n != 0 {
			return App("shift!"+elemSort(cur.S), cur.S, cur, s.Off)
		}
	}
	return cur
}

// newSymSlice allocates a mutable symbolic slice with backing array arr.
func (ex *Executor) newSymSlice(st *State, arr, ln *Term, elem types.Type) *SymSliceV {
	cell := ex.newCell(st, arr)
	return &SymSliceV{Arr: arr, Cell: cell, Len: ln, ElemT: elem}
}

func iteLeaves(t *Term) []*Term {
	if t.Op == "ite" && !t.Sym && len(t.Args) == 3 {
		return append(iteLeaves(t.Args[1]), iteLeaves(t.Args[2])...)
	}
	return []*Term{t}
}

// nextAlternatives: iteration over a locally built map visits the live
// updates in insertion order (one representative order; order sensitivity is
// not explored). Which update is live depends on key equalities that may be
// symbolic, so the step forks: alternative k says "the next live update is k"
// or "none is left".
type nextAlt struct {
	Cond *Term
	Val  Value
	Pos  int
}

func (ex *Executor) nextAlternatives(st *State, fr *frame, x *ssa.Next) ([]nextAlt, bool) {
	it, _ := ex.get(st, fr, x.Iter).(*RangeV)
	if it == nil || x.IsString {
		return nil, false
	}
	md, _ := ex.mapData(st, it.X)
	if md == nil || md.Base != nil {
		return nil, false
	}
	tt := x.Type().(*types.Tuple)
	pos := fr.iterPos[x.Iter]
	var alts []nextAlt
	var skipped []*Term
	for i := pos; i < len(md.Upd); i++ {
		c := liveCond(ex, st, md, i)
		if c == TFalse {
			continue
		}
		alts = append(alts, nextAlt{Cond: And(append(append([]*Term(nil), skipped...), c)...), Val: &TupleV{V: []Value{TTrue, md.Upd[i].K, md.Upd[i].V}}, Pos: i + 1})
		if c == TTrue {
			return alts, true
		}
		skipped = append(skipped, Not(c))
	}
	alts = append(alts, nextAlt{Cond: And(skipped...), Val: &TupleV{V: []Value{TFalse, ex.zero(tt.At(1).Type()), ex.zero(tt.At(2).Type())}}, Pos: len(md.Upd)})
	return alts, true
}
