package main

// Symbolic executor over go/ssa. One call of Explore enumerates every
// acyclic path of a function (loops: cut at an invariant if the contract has
// one, otherwise unrolled up to a bound and the path is flagged Bounded).

import (
	"fmt"
	"go/constant"
	"go/token"
	"go/types"
	"strings"

	"golang.org/x/tools/go/ssa"
)

type Outcome struct {
	St     *State
	Ret    Value // result value (TupleV for multi-value), nil for none
	Panic  bool
	PanicV Value
	Cut    string // non-empty: path was cut (loop back-edge reached with invariant, bound, etc.)
}

type Executor struct {
	Prog      *Program
	MaxPaths  int
	MaxDepth  int
	Unroll    int
	paths     int
	fresh     int
	cellSeq   int
	Aborted   string
	Root      *ssa.Function
	LoopInv   map[*ssa.BasicBlock]*LoopContract // for Root only
	LoopObls  []*LoopObligation
	UsedEnv   map[string]bool
	Inlined   map[string]bool
	Entered   map[*ssa.BasicBlock]bool // blocks some explored path jumped into (coverage notes)
	Summaries map[string]bool
	fset      *token.FileSet

	pendingPanics []callResult
	AssumeNonNil  func(ref *Term) bool
	SummaryHook   func(ex *Executor, st *State, fn *ssa.Function, c *callCtx) ([]callResult, bool)
	ConcatTerms   []*Term
	loopEnv       func(st *State) *CEnv
	GlobalFacts   []*Term
	Defs          map[string]*Term // definitional names (buffer contents) -> defining expression
	LoopErrors    []string
	NoAutoCut     bool
	LoopCuts      map[string]int // loops cut by the unrolling bound (position -> paths dropped)
	GhostHook     func(ex *Executor, fn *ssa.Function, args []Value, st *State, from int)
	sentinels     []*Term
	sentinelSeen  map[string]bool
	TypeHolds     func(t types.Type) bool
}

type frame struct {
	fn      *ssa.Function
	regs    map[ssa.Value]Value
	block   *ssa.BasicBlock
	prev    *ssa.BasicBlock
	idx     int
	depth   int
	visits  map[*ssa.BasicBlock]int
	bind    []Value // free variables
	inLoop  map[*ssa.BasicBlock]bool
	autoCut map[*ssa.BasicBlock]*cutSnap // loops without invariant generalised by havoc
	iterPos map[ssa.Value]int
	parent  *frame
	names   map[string]cval
	callee  *ssa.Function
}

func (f *frame) clone() *frame {
	n := *f
	n.regs = make(map[ssa.Value]Value, len(f.regs))
	for k, v := range f.regs {
		n.regs[k] = v
	}
	n.visits = make(map[*ssa.BasicBlock]int, len(f.visits))
	for k, v := range f.visits {
		n.visits[k] = v
	}
	if f.autoCut != nil {
		n.autoCut = make(map[*ssa.BasicBlock]*cutSnap, len(f.autoCut))
		for k, v := range f.autoCut {
			n.autoCut[k] = v
		}
	}
	n.inLoop = make(map[*ssa.BasicBlock]bool, len(f.inLoop))
	for k, v := range f.inLoop {
		n.inLoop[k] = v
	}
	if f.names != nil {
		n.names = make(map[string]cval, len(f.names))
		for k, v := range f.names {
			n.names[k] = v
		}
	}
	if f.iterPos != nil {
		n.iterPos = make(map[ssa.Value]int, len(f.iterPos))
		for k, v := range f.iterPos {
			n.iterPos[k] = v
		}
	}
	return &n
}

func (ex *Executor) Fresh(hint, sort string) *Term {
	ex.fresh++
	name := fmt.Sprintf("%s!%d", hint, ex.fresh)
	// (the counter restarts with every function: the same name may already stand for a
	// constant of another sort in another function's obligations)
	if !constSortFree(name, sort) {
		name = fmt.Sprintf("%s!%s!%d", hint, strings.NewReplacer("(", "", ")", "", " ", "_").Replace(sort), ex.fresh)
	}
	return Const(name, sort)
}

// constSortFree: name is undeclared, or declared as a constant of this sort.
func constSortFree(name, sort string) bool {
	n := smtName(name)
	gsymMu.Lock()
	defer gsymMu.Unlock()
	d, ok := gsym.decls[n]
	return !ok || (len(d.Args) == 0 && d.Ret == sort)
}

func (ex *Executor) newCell(st *State, v Value) int {
	ex.cellSeq++
	st.Cells[ex.cellSeq] = v
	return ex.cellSeq
}

func (ex *Executor) pos(p token.Pos) string {
	if !p.IsValid() {
		return ""
	}
	pp := ex.fset.Position(p)
	f := pp.Filename
	if i := strings.LastIndex(f, "/repo/"); i >= 0 {
		f = f[i+6:]
	}
	return fmt.Sprintf("%s:%d", f, pp.Line)
}

// ---------------------------------------------------------------------------
// types -> sorts, havoc, zero values

func isByteSlice(t types.Type) bool {
	if s, ok := t.Underlying().(*types.Slice); ok {
		if b, ok := s.Elem().Underlying().(*types.Basic); ok && b.Kind() == types.Uint8 {
			return true
		}
	}
	return false
}

func isByteArray(t types.Type) bool {
	if s, ok := t.Underlying().(*types.Array); ok {
		if b, ok := s.Elem().Underlying().(*types.Basic); ok && b.Kind() == types.Uint8 {
			return true
		}
	}
	return false
}

func isTime(t types.Type) bool {
	if n, ok := t.(*types.Named); ok {
		return n.Obj().Pkg() != nil && n.Obj().Pkg().Path() == "time" && n.Obj().Name() == "Time"
	}
	return false
}

func isNamed(t types.Type, pkg, name string) bool {
	if p, ok := t.(*types.Pointer); ok {
		t = p.Elem()
	}
	if n, ok := t.(*types.Named); ok {
		return n.Obj().Pkg() != nil && n.Obj().Pkg().Path() == pkg && n.Obj().Name() == name
	}
	return false
}

// scalarSort returns the SMT sort for types represented by a single term.
func scalarSort(t types.Type) (string, bool) {
	if isTime(t) {
		return "", false
	}
	switch u := t.Underlying().(type) {
	case *types.Basic:
		switch {
		case u.Info()&types.IsBoolean != 0:
			return SBool, true
		case u.Info()&types.IsInteger != 0:
			return SInt, true
		case u.Info()&types.IsString != 0:
			return SStr, true
		case u.Info()&types.IsFloat != 0:
			return "Real", true
		case u.Kind() == types.UnsafePointer, u.Kind() == types.UntypedNil:
			return SInt, true
		}
	case *types.Pointer, *types.Interface, *types.Map, *types.Chan, *types.Signature:
		return SInt, true
	case *types.Slice:
		if isByteSlice(t) {
			return "", false
		}
		return SInt, true
	}
	return "", false
}

func (ex *Executor) zero(t types.Type) Value {
	if isTime(t) {
		return &TimeV{T: timeZero}
	}
	switch u := t.Underlying().(type) {
	case *types.Basic:
		switch {
		case u.Info()&types.IsBoolean != 0:
			return TFalse
		case u.Info()&types.IsInteger != 0:
			return IntLit(0)
		case u.Info()&types.IsString != 0:
			return StrLit("")
		case u.Info()&types.IsFloat != 0:
			return &Term{Op: "0.0", S: "Real", Lit: true}
		}
		return IntLit(0)
	case *types.Struct:
		sv := &StructV{T: t}
		for i := 0; i < u.NumFields(); i++ {
			sv.F = append(sv.F, ex.zero(u.Field(i).Type()))
		}
		return sv
	case *types.Array:
		if isByteArray(t) {
			return &BytesV{T: StrLit(strings.Repeat("\x00", int(u.Len())))}
		}
		av := &ArrayV{}
		for i := int64(0); i < u.Len(); i++ {
			av.E = append(av.E, ex.zero(u.Elem()))
		}
		return av
	case *types.Slice:
		if isByteSlice(t) {
			return &BytesV{T: StrLit("")}
		}
		return &SliceV{Nil: true}
	}
	return IntLit(0) // nil reference
}

// zero time.Time (year 1) in ns; does not fit int64, used symbolically only
var timeZero = &Term{Op: "(- 62135596800000000000)", S: SInt, Lit: true}

// havoc produces an unconstrained value of static type t.
func (ex *Executor) havoc(st *State, t types.Type, hint string) Value {
	if isTime(t) {
		return &TimeV{T: ex.Fresh(hint, SInt)}
	}
	if s, ok := scalarSort(t); ok {
		if sl, isSl := t.Underlying().(*types.Slice); isSl {
			return ex.havocSlice(st, sl, hint)
		}
		if isNamed(t, "net/http", "Request") {
			if _, isPtr := t.(*types.Pointer); isPtr {
				return &ReqV{Base: ex.Fresh(hint, SInt)}
			}
		}
		if isNamed(t, "context", "Context") {
			return &CtxV{Base: ex.Fresh(hint, SInt)}
		}
		v := ex.Fresh(hint, s)
		return v
	}
	switch u := t.Underlying().(type) {
	case *types.Struct:
		sv := &StructV{T: t}
		for i := 0; i < u.NumFields(); i++ {
			sv.F = append(sv.F, ex.havoc(st, u.Field(i).Type(), hint+"."+u.Field(i).Name()))
		}
		return sv
	case *types.Slice: // []byte
		b := ex.Fresh(hint, SStr)
		return &BytesV{T: b}
	case *types.Array:
		if isByteArray(t) {
			b := ex.Fresh(hint, SStr)
			st.Fact(Eq(StrLen(b), IntLit(u.Len())))
			return &BytesV{T: b}
		}
		av := &ArrayV{}
		for i := int64(0); i < u.Len(); i++ {
			av.E = append(av.E, ex.havoc(st, u.Elem(), fmt.Sprintf("%s[%d]", hint, i)))
		}
		return av
	case *types.Tuple:
		tv := &TupleV{}
		for i := 0; i < u.Len(); i++ {
			tv.V = append(tv.V, ex.havoc(st, u.At(i).Type(), fmt.Sprintf("%s.%d", hint, i)))
		}
		return tv
	}
	return &UnknownV{Why: "havoc of " + t.String()}
}

func (ex *Executor) havocSlice(st *State, sl *types.Slice, hint string) Value {
	es, ok := scalarSort(sl.Elem())
	if !ok {
		// slice of composites: opaque reference
		return ex.Fresh(hint, SInt)
	}
	ref := ex.Fresh(hint, SInt)
	return ex.symSliceOfRef(st, ref, sl.Elem(), es)
}

func (ex *Executor) symSliceOfRef(st *State, ref *Term, elem types.Type, es string) *SymSliceV {
	ln := App("slen", SInt, ref)
	st.Fact(Ge(ln, IntLit(0)))
	st.Fact(Implies(Eq(ref, IntLit(0)), Eq(ln, IntLit(0))))
	arr := App("sarr!"+es, SArr(SInt, es), ref)
	return &SymSliceV{Arr: arr, Len: ln, Ref: ref, ElemT: elem}
}

// ---------------------------------------------------------------------------
// constants

func (ex *Executor) constVal(st *State, c *ssa.Const) Value {
	t := c.Type()
	if c.Value == nil {
		return ex.zero(t)
	}
	switch c.Value.Kind() {
	case constant.Bool:
		return BoolLit(constant.BoolVal(c.Value))
	case constant.String:
		return StrLit(constant.StringVal(c.Value))
	case constant.Int:
		if n, ok := constant.Int64Val(c.Value); ok {
			return IntLit(n)
		}
		if n, ok := constant.Uint64Val(c.Value); ok {
			return &Term{Op: fmt.Sprint(n), S: SInt, Lit: true}
		}
	case constant.Float:
		f, _ := constant.Float64Val(c.Value)
		if b, ok := t.Underlying().(*types.Basic); ok && b.Info()&types.IsInteger != 0 {
			return IntLit(int64(f))
		}
		return &Term{Op: fmt.Sprintf("%f", f), S: "Real", Lit: true}
	}
	return &UnknownV{Why: "const " + c.String()}
}

// ---------------------------------------------------------------------------
// value lookup

func (ex *Executor) get(st *State, fr *frame, v ssa.Value) Value {
	switch x := v.(type) {
	case *ssa.Const:
		return ex.constVal(st, x)
	case *ssa.Function:
		return &FuncV{Fn: x}
	case *ssa.Global:
		return &LocV{Base: IntLit(0), Path: "glob!" + x.Pkg.Pkg.Path() + "." + x.Name(), T: x.Type().(*types.Pointer).Elem()}
	case *ssa.Builtin:
		return &UnknownV{Why: "builtin value " + x.Name()}
	case *ssa.FreeVar:
		for i, fv := range fr.fn.FreeVars {
			if fv == x {
				return fr.bind[i]
			}
		}
	}
	if r, ok := fr.regs[v]; ok {
		return r
	}
	return &UnknownV{Why: "unset " + v.Name()}
}

// ---------------------------------------------------------------------------
// Term conversion of arbitrary values (for env calls, context storage, etc.)

func (ex *Executor) asTerm(st *State, v Value) *Term {
	switch x := v.(type) {
	case *Term:
		return x
	case *IfaceV:
		switch in := x.V.(type) {
		case *Term:
			// boxed scalar: box_<sort>(<type tag>, t)
			return App("box!"+in.S+"!"+typeTag(x.Dyn), SInt, in)
		case *PtrV:
			return IntLit(int64(-1000 - in.Cell))
		case *LocV:
			return ex.locRef(in)
		}
		return App("box!opaque", SInt, IntLit(int64(len(showValue(x.V)))))
	case *PtrV:
		return IntLit(int64(-1000 - x.Cell))
	case *LocV:
		return ex.locRef(x)
	case *ReqV:
		if x.Ctx == nil {
			return x.Base
		}
		return App("req!withctx", SInt, x.Base, ex.asTerm(st, x.Ctx))
	case *CtxV:
		t := x.Base
		for _, kv := range x.KV {
			t = App("ctx!with", SInt, t, ex.asTerm(st, kv.K), ex.asTerm(st, kv.V))
		}
		return t
	case *BytesV:
		return x.T
	case *TimeV:
		return x.T
	case *SymSliceV:
		if x.Ref != nil {
			return x.Ref
		}
	case *MapV:
		return IntLit(int64(-1000 - x.Cell))
	case *SliceV:
		if x.Nil {
			return IntLit(0)
		}
		return IntLit(int64(-1000 - x.Cell))
	case *FuncV:
		return App("fn!"+x.Fn.String(), SInt)
	case *ClosureV:
		return App("fn!"+x.Fn.String(), SInt)
	}
	return ex.Fresh("opaque", SInt)
}

func (ex *Executor) locRef(l *LocV) *Term {
	args := append([]*Term{l.Base}, l.Idx...)
	return App("addr!"+l.Path, SInt, args...)
}

func typeTag(t types.Type) string {
	s := types.TypeString(t, func(p *types.Package) string { return p.Name() })
	s = strings.NewReplacer(" ", "", "*", "ptr.", "[", "(", "]", ")", "{", "(", "}", ")").Replace(s)
	return s
}

// ---------------------------------------------------------------------------
// memory

func (ex *Executor) load(st *State, addr Value, t types.Type) Value {
	switch a := addr.(type) {
	case *PtrV:
		v, ok := st.Cells[a.Cell]
		if !ok {
			return &UnknownV{Why: "dangling cell"}
		}
		for _, pe := range a.Path {
			v = project(v, pe)
		}
		return v
	case *LocV:
		return ex.loadLoc(st, a)
	case *symElemAddr:
		return ex.loadElem(st, a, t)
	case *Term:
		// opaque pointer to T
		return ex.loadLoc(st, &LocV{Base: a, Path: "deref!" + typeTag(t), T: t})
	case *ReqV:
		return &UnknownV{Why: "load *http.Request"}
	}
	st.Note("load through %s", showValue(addr))
	return ex.havoc(st, t, "ld")
}

func project(v Value, pe PathElem) Value {
	if pe.Field >= 0 {
		if sv, ok := v.(*StructV); ok && pe.Field < len(sv.F) {
			return sv.F[pe.Field]
		}
		return &UnknownV{Why: "project field of " + showValue(v)}
	}
	if av, ok := v.(*ArrayV); ok && pe.Index < len(av.E) {
		return av.E[pe.Index]
	}
	return &UnknownV{Why: "project index of " + showValue(v)}
}

func inject(v Value, path []PathElem, nv Value) Value {
	if len(path) == 0 {
		return nv
	}
	pe := path[0]
	if pe.Field >= 0 {
		sv, ok := v.(*StructV)
		if !ok {
			return &UnknownV{Why: "inject field"}
		}
		c := &StructV{T: sv.T, F: append([]Value(nil), sv.F...)}
		c.F[pe.Field] = inject(sv.F[pe.Field], path[1:], nv)
		return c
	}
	av, ok := v.(*ArrayV)
	if !ok || pe.Index >= len(av.E) {
		return &UnknownV{Why: "inject index"}
	}
	c := &ArrayV{E: append([]Value(nil), av.E...)}
	c.E[pe.Index] = inject(av.E[pe.Index], path[1:], nv)
	return c
}

func (l *LocV) key() string {
	var b strings.Builder
	b.WriteString(l.Path)
	b.WriteByte('@')
	b.WriteString(l.Base.String())
	for _, i := range l.Idx {
		b.WriteByte(',')
		b.WriteString(i.String())
	}
	return b.String()
}

func (ex *Executor) loadLoc(st *State, l *LocV) Value {
	if v, ok := st.Overlay[l.key()]; ok {
		return v
	}
	t := l.T
	args := append([]*Term{l.Base}, l.Idx...)
	if isTime(t) {
		return &TimeV{T: App(l.Path, SInt, args...)}
	}
	if strings.HasPrefix(l.Path, "glob!") {
		if v, ok := ex.globalValue(st, l); ok {
			return v
		}
	}
	if s, ok := scalarSort(t); ok {
		term := App(l.Path, s, args...)
		if sl, isSl := t.Underlying().(*types.Slice); isSl {
			if es, ok := scalarSort(sl.Elem()); ok {
				return ex.symSliceOfRef(st, term, sl.Elem(), es)
			}
		}
		if isNamed(t, "net/http", "Request") {
			if _, isPtr := t.(*types.Pointer); isPtr {
				return &ReqV{Base: term}
			}
		}
		return term
	}
	switch u := t.Underlying().(type) {
	case *types.Struct:
		sv := &StructV{T: t}
		for i := 0; i < u.NumFields(); i++ {
			sv.F = append(sv.F, ex.loadLoc(st, &LocV{Base: l.Base, Path: l.Path + "." + u.Field(i).Name(), Idx: l.Idx, T: u.Field(i).Type()}))
		}
		return sv
	case *types.Slice: // []byte
		return &BytesV{T: App(l.Path, SStr, args...)}
	case *types.Array:
		if isByteArray(t) {
			return &BytesV{T: App(l.Path, SStr, args...)}
		}
	}
	st.Note("load of opaque %s : %s", l.Path, t)
	return ex.havoc(st, t, "ld")
}

// globalValue models package-level variables. Error sentinels and other
// package variables are treated as immutable after init (assumption
// A-globals, checked by the frame sweep for in-repo writers).
func (ex *Executor) globalValue(st *State, l *LocV) (Value, bool) {
	if c := ex.Prog.GlobalConsts[l.Path]; c != nil && len(l.Idx) == 0 {
		// package-level variable initialised to a constant, immutable after
		// init (assumption A-globals; writers are caught by the frame sweep)
		return ex.constVal(st, c), true
	}
	if fn := ex.Prog.GlobalFuncs[l.Path]; fn != nil {
		// package-level func variable, immutable after init (assumption
		// A-globals): resolve to the function it was initialised with
		return &FuncV{Fn: fn}, true
	}
	if types.Identical(l.T, types.Universe.Lookup("error").Type()) {
		t := App(l.Path, SInt, l.Base)
		key := t.String()
		if !ex.sentinelSeen[key] {
			if ex.sentinelSeen == nil {
				ex.sentinelSeen = map[string]bool{}
			}
			ex.sentinelSeen[key] = true
			ex.GlobalFacts = append(ex.GlobalFacts, nonNil(t), Not(App("fresh_error", SBool, t)))
			if i := strings.LastIndexByte(l.Path, '.'); i >= 0 && i+1 < len(l.Path) && l.Path[i+1] >= 'a' && l.Path[i+1] <= 'z' {
				// unexported sentinel: the environment cannot return it
				ex.GlobalFacts = append(ex.GlobalFacts, Not(App("env_error", SBool, t)))
			}
			for _, o := range ex.sentinels {
				ex.GlobalFacts = append(ex.GlobalFacts, Neq(t, o))
			}
			ex.sentinels = append(ex.sentinels, t)
		}
		return t, true
	}
	return nil, false
}

func (ex *Executor) store(st *State, addr Value, v Value) {
	switch a := addr.(type) {
	case *PtrV:
		old := st.Cells[a.Cell]
		st.Cells[a.Cell] = inject(old, a.Path, v)
		return
	case *LocV:
		st.Overlay[a.key()] = v
		st.Emit("MemWrite", []Value{StrLit(a.Path), a.Base, v}, nil, "")
		return
	case *symElemAddr:
		ex.storeElem(st, a, v)
		return
	case *Term:
		st.Overlay["deref@"+a.String()] = v
		st.Emit("MemWrite", []Value{StrLit("deref"), a, v}, nil, "")
		return
	}
	st.Note("store through %s", showValue(addr))
}

// ---------------------------------------------------------------------------

type callResult struct {
	St    *State
	Ret   Value
	Panic bool
}

// Explore runs fn from its entry with the given arguments.
func (ex *Executor) Explore(fn *ssa.Function, st *State, args []Value, bind []Value, depth int) []callResult {
	if fn.Blocks == nil {
		st.Note("no body: %s", fn.String())
		return []callResult{{St: st, Ret: ex.havocResults(st, fn.Signature, fn.Name())}}
	}
	fr := &frame{fn: fn, regs: map[ssa.Value]Value{}, block: fn.Blocks[0], depth: depth, visits: map[*ssa.BasicBlock]int{}, bind: bind, inLoop: map[*ssa.BasicBlock]bool{}, names: map[string]cval{}}
	for i, p := range fn.Params {
		if i < len(args) {
			fr.regs[p] = args[i]
		}
	}
	var out []callResult
	ex.run(st, fr, &out)
	return out
}

func (ex *Executor) havocResults(st *State, sig *types.Signature, hint string) Value {
	res := sig.Results()
	switch res.Len() {
	case 0:
		return nil
	case 1:
		return ex.havoc(st, res.At(0).Type(), hint)
	}
	return ex.havoc(st, res, hint)
}

func (ex *Executor) run(st *State, fr *frame, out *[]callResult) {
	for {
		if ex.Aborted != "" {
			return
		}
		if fr.idx >= len(fr.block.Instrs) {
			return
		}
		ins := fr.block.Instrs[fr.idx]
		fr.idx++
		switch x := ins.(type) {
		case *ssa.DebugRef:
			if fr.names != nil && !x.IsAddr {
				if v, ok := x.Object().(*types.Var); ok {
					fr.names[v.Name()] = cval{V: ex.get(st, fr, x.X), T: v.Type()}
				}
			}
			continue
		case *ssa.If:
			c, ok := ex.get(st, fr, x.Cond).(*Term)
			if !ok || c.S != SBool {
				st.Note("non-boolean condition at %s", ex.pos(x.Pos()))
				c = ex.Fresh("cond", SBool)
			}
			tb, fb := fr.block.Succs[0], fr.block.Succs[1]
			if c == TTrue {
				if !ex.jump(st, fr, tb) {
					return
				}
				continue
			}
			if c == TFalse {
				if !ex.jump(st, fr, fb) {
					return
				}
				continue
			}
			// fork
			st2 := st.Clone()
			fr2 := fr.clone()
			st2.Assume(c)
			if !st2.Infeasible() && ex.jump(st2, fr2, tb) {
				ex.run(st2, fr2, out)
			}
			st.Assume(Not(c))
			if st.Infeasible() || !ex.jump(st, fr, fb) {
				return
			}
			continue
		case *ssa.Jump:
			if !ex.jump(st, fr, fr.block.Succs[0]) {
				return
			}
			continue
		case *ssa.Return:
			ex.paths++
			if ex.paths > ex.MaxPaths {
				ex.Aborted = fmt.Sprintf("path limit %d exceeded in %s", ex.MaxPaths, ex.Root.String())
				return
			}
			var rv Value
			switch len(x.Results) {
			case 0:
			case 1:
				rv = ex.get(st, fr, x.Results[0])
			default:
				tv := &TupleV{}
				for _, r := range x.Results {
					tv.V = append(tv.V, ex.get(st, fr, r))
				}
				rv = tv
			}
			*out = append(*out, callResult{St: st, Ret: rv})
			return
		case *ssa.Panic:
			ex.paths++
			pv := ex.get(st, fr, x.X)
			st.Emit("Panic", []Value{StrLit("explicit panic at " + ex.pos(x.Pos())), pv}, nil, ex.pos(x.Pos()))
			*out = append(*out, callResult{St: st, Panic: true})
			return
		case *ssa.RunDefers:
			continue
		case *ssa.Defer:
			st.Note("defer ignored at %s", ex.pos(x.Pos()))
			continue
		case *ssa.Go:
			st.Emit("Go", []Value{StrLit(x.Common().String())}, nil, ex.pos(x.Pos()))
			saved := st.InGo
			st.InGo++
			results := ex.call(st, fr, x.Common(), nil, x.Pos())
			var cont []callResult
			for _, r := range results {
				if r.Panic {
					*out = append(*out, r)
					continue
				}
				r.St.InGo = saved
				cont = append(cont, r)
			}
			if len(cont) == 0 {
				return
			}
			for _, r := range cont[:len(cont)-1] {
				ex.run(r.St, fr.clone(), out)
			}
			st = cont[len(cont)-1].St
			continue
		case *ssa.Store:
			ex.store(st, ex.get(st, fr, x.Addr), ex.get(st, fr, x.Val))
			continue
		case *ssa.MapUpdate:
			ex.mapUpdate(st, ex.get(st, fr, x.Map), ex.get(st, fr, x.Key), ex.get(st, fr, x.Value))
			continue
		case *ssa.Send:
			st.Note("channel send at %s", ex.pos(x.Pos()))
			continue
		case *ssa.Call:
			results := ex.call(st, fr, x.Common(), x, x.Pos())
			if len(ex.pendingPanics) > 0 {
				*out = append(*out, ex.pendingPanics...)
				ex.paths += len(ex.pendingPanics)
				ex.pendingPanics = nil
			}
			var cont []callResult
			for _, r := range results {
				if r.Panic {
					*out = append(*out, r)
					continue
				}
				if r.St.Infeasible() {
					continue
				}
				cont = append(cont, r)
			}
			if len(cont) == 0 {
				return
			}
			for _, r := range cont[:len(cont)-1] {
				f2 := fr.clone()
				f2.regs[x] = r.Ret
				ex.run(r.St, f2, out)
			}
			last := cont[len(cont)-1]
			fr.regs[x] = last.Ret
			st = last.St
			continue
		case ssa.Value:
			if nx, ok := x.(*ssa.Next); ok {
				if alts, ok := ex.nextAlternatives(st, fr, nx); ok {
					for _, a := range alts[:len(alts)-1] {
						st2 := st.Clone()
						st2.Assume(a.Cond)
						if st2.Infeasible() {
							continue
						}
						fr2 := fr.clone()
						if fr2.iterPos == nil {
							fr2.iterPos = map[ssa.Value]int{}
						}
						fr2.iterPos[nx.Iter] = a.Pos
						fr2.regs[x] = a.Val
						ex.run(st2, fr2, out)
					}
					last := alts[len(alts)-1]
					st.Assume(last.Cond)
					if st.Infeasible() {
						return
					}
					if fr.iterPos == nil {
						fr.iterPos = map[ssa.Value]int{}
					}
					fr.iterPos[nx.Iter] = last.Pos
					fr.regs[x] = last.Val
					continue
				}
			}
			v := ex.eval(st, fr, x)
			fr.regs[x] = v
			if len(ex.pendingPanics) > 0 {
				*out = append(*out, ex.pendingPanics...)
				ex.paths += len(ex.pendingPanics)
				ex.pendingPanics = nil
			}
			if st.Infeasible() {
				return
			}
			continue
		default:
			st.Note("unhandled instruction %T at %s", ins, ex.pos(ins.Pos()))
		}
	}
}

// jump moves fr to block b, evaluating phis. Returns false if the path ends.
func (ex *Executor) jump(st *State, fr *frame, b *ssa.BasicBlock) bool {
	from := fr.block
	// loop handling
	if lc := ex.loopContractFor(fr, b); lc != nil {
		return ex.jumpLoopHeader(st, fr, from, b, lc)
	}
	if snap := fr.autoCut[b]; snap != nil {
		// back edge of a loop that was generalised by havoc: the arbitrary state at
		// the header already stands for every later iteration, provided the body
		// changed nothing the havoc did not cover
		if why := snap.escapes(st); why != "" {
			ex.cutLoop(st, b, why)
		}
		return false
	}
	fr.visits[b]++
	if fr.visits[b] > ex.Unroll+1 && isLoopHeader(b) && !ex.finiteRange(st, fr, b) {
		if ex.NoAutoCut {
			ex.cutLoop(st, b, "no invariant")
			return false
		}
		// no invariant: cut with the invariant "true" - forget everything the
		// loop may change and explore one more arbitrary iteration and the exit
		ex.enterBlock(st, fr, from, b)
		before := map[int]Value{}
		for k, v := range st.Cells {
			before[k] = v
		}
		uhBefore := map[string]*Term{}
		for k, v := range st.UHeap {
			uhBefore[k] = v
		}
		ex.havocLoop(st, fr, b)
		// the index of a range loop is only ever incremented from -1 (go/ssa
		// generates it): it stays >= -1 whatever the body does
		for _, ins := range b.Instrs {
			phi, ok := ins.(*ssa.Phi)
			if !ok {
				break
			}
			if phi.Comment == "rangeindex" {
				if t, ok := fr.regs[phi].(*Term); ok && t.S == SInt {
					st.Assume(Ge(t, IntLit(-1)))
				}
			}
		}
		snap := &cutSnap{trace: len(st.Trace), cells: map[int]Value{}, havocked: map[int]bool{}, overlay: map[string]Value{}, uheap: map[string]*Term{}, uhavocked: map[string]bool{}}
		for k, v := range st.Cells {
			snap.cells[k] = v
			if before[k] != v {
				snap.havocked[k] = true
			}
		}
		for k, v := range st.Overlay {
			snap.overlay[k] = v
		}
		for k, v := range st.UHeap {
			snap.uheap[k] = v
			if uhBefore[k] != v {
				snap.uhavocked[k] = true
			}
		}
		if fr.autoCut == nil {
			fr.autoCut = map[*ssa.BasicBlock]*cutSnap{}
		}
		fr.autoCut[b] = snap
		st.Note("loop at %s %s generalised by havoc (no invariant)", b.Parent().String(), ex.pos(firstPos(b)))
		return !st.Infeasible()
	}
	ex.enterBlock(st, fr, from, b)
	return true
}

func (ex *Executor) enterBlock(st *State, fr *frame, from, b *ssa.BasicBlock) {
	// evaluate phis simultaneously
	var vals []Value
	var phis []*ssa.Phi
	for _, ins := range b.Instrs {
		phi, ok := ins.(*ssa.Phi)
		if !ok {
			break
		}
		idx := -1
		for i, p := range b.Preds {
			if p == from {
				idx = i
				break
			}
		}
		if idx < 0 {
			vals = append(vals, &UnknownV{Why: "phi pred"})
		} else {
			vals = append(vals, ex.get(st, fr, phi.Edges[idx]))
		}
		phis = append(phis, phi)
	}
	for i, p := range phis {
		fr.regs[p] = vals[i]
	}
	fr.prev = from
	fr.block = b
	fr.idx = len(phis)
	if ex.Entered == nil {
		ex.Entered = map[*ssa.BasicBlock]bool{}
	}
	ex.Entered[b] = true
}

func firstPos(b *ssa.BasicBlock) token.Pos {
	for _, i := range b.Instrs {
		if i.Pos().IsValid() {
			return i.Pos()
		}
	}
	return token.NoPos
}

func isLoopHeader(b *ssa.BasicBlock) bool {
	for _, p := range b.Preds {
		if b.Dominates(p) {
			return true
		}
	}
	return false
}

// ---------------------------------------------------------------------------

// paramValue creates the symbolic entry value of a parameter.
func (ex *Executor) paramValue(st *State, name string, t types.Type) Value {
	if !strings.HasPrefix(name, "p.") {
		name = "p." + name
	}
	if isTime(t) {
		return &TimeV{T: paramConst(name, SInt)}
	}
	if s, ok := scalarSort(t); ok {
		if isNamed(t, "net/http", "Request") {
			if _, isPtr := t.(*types.Pointer); isPtr {
				return &ReqV{Base: paramConst(name, SInt)}
			}
		}
		if isNamed(t, "context", "Context") {
			return &CtxV{Base: paramConst(name, SInt)}
		}
		c := paramConst(name, s)
		switch t.Underlying().(type) {
		case *types.Pointer, *types.Interface, *types.Map, *types.Signature, *types.Chan:
			// objects that exist before the call are distinct from everything
			// the function allocates itself (allocation ids are negative)
			st.Fact(Ge(c, IntLit(0)))
		}
		if sl, isSl := t.Underlying().(*types.Slice); isSl {
			if es, ok := scalarSort(sl.Elem()); ok {
				return ex.symSliceOfRef(st, c, sl.Elem(), es)
			}
		}
		return c
	}
	if isByteSlice(t) {
		return &BytesV{T: paramConst(name, SStr)}
	}
	if u, ok := t.Underlying().(*types.Struct); ok {
		sv := &StructV{T: t}
		for i := 0; i < u.NumFields(); i++ {
			sv.F = append(sv.F, ex.paramValue(st, name+"."+u.Field(i).Name(), u.Field(i).Type()))
		}
		return sv
	}
	return ex.havoc(st, t, name)
}

// defaultTypeHolds: wiring assumption wf_types - values flowing into type
// assertions on the repository's user, storer and request-value interfaces
// implement them (the Must*/EnsureCan* helpers panic otherwise by design).
func defaultTypeHolds(t types.Type) bool {
	n, ok := t.(*types.Named)
	if !ok {
		return false
	}
	if n.Obj().Pkg() != nil && n.Obj().Pkg().Path() == abPkg && n.Obj().Name() == "HTMLData" {
		return true // the request-scoped data value is always an HTMLData
	}
	if _, isIface := t.Underlying().(*types.Interface); !isIface {
		return false
	}
	if n.Obj().Pkg() == nil || !strings.HasPrefix(n.Obj().Pkg().Path(), abPkg) {
		return false
	}
	name := n.Obj().Name()
	switch name {
	case "UserOneTime", "ArbitraryUser", "RecoverableUserWithSecondaryEmails", "RememberValuer", "ArbitraryValuer":
		return false // optional capabilities: both outcomes are explored
	}
	return isUserIface(t) || strings.HasSuffix(name, "Valuer") || strings.HasSuffix(name, "ServerStorer") || name == "ClientState" || name == "User"
}

// defaultAssumeNonNil: wiring assumption wf_config - the receiver, the
// request/response parameters and every component loaded from the
// configuration (fields of *Authboss, Config and the module structs) are
// non-nil when dereferenced or invoked.
func defaultAssumeNonNil(ref *Term) bool {
	if ref.Sym && len(ref.Args) == 0 && strings.HasPrefix(ref.Op, "p.") {
		return true // a parameter
	}
	if ref.Sym && strings.HasPrefix(ref.Op, "f!") {
		return true
	}
	if ref.Sym && strings.HasPrefix(ref.Op, "|f!") {
		return true
	}
	return false
}

// rootArgs creates symbolic entry values for the parameters and free
// variables of a function under contract.
func (ex *Executor) rootArgs(st *State, fn *ssa.Function) (args []Value, bind []Value, params map[string]cval) {
	params = map[string]cval{}
	for _, prm := range fn.Params {
		pv := ex.paramValue(st, prm.Name(), prm.Type())
		args = append(args, pv)
		params[prm.Name()] = cval{V: pv, T: prm.Type()}
	}
	for _, fv := range fn.FreeVars {
		el := fv.Type().(*types.Pointer).Elem()
		pv := ex.paramValue(st, fv.Name(), el)
		cell := ex.newCell(st, pv)
		bind = append(bind, &PtrV{Cell: cell})
		params[fv.Name()] = cval{V: pv, T: el}
	}
	return
}

// finiteRange: the loop headed by b ranges over a locally built map whose
// updates are all known; it runs at most once per update, so following it to
// the end is a complete exploration, not an unrolling bound.
func (ex *Executor) finiteRange(st *State, fr *frame, b *ssa.BasicBlock) bool {
	for _, ins := range b.Instrs {
		nx, ok := ins.(*ssa.Next)
		if !ok || nx.IsString {
			continue
		}
		it, _ := fr.regs[nx.Iter].(*RangeV)
		if it == nil {
			return false
		}
		md, _ := ex.mapData(st, it.X)
		return md != nil && md.Base == nil && fr.visits[b] <= len(md.Upd)+2
	}
	return false
}

// cutSnap remembers the state right after a loop without invariant was
// generalised, to detect body effects the generalisation does not cover.
type cutSnap struct {
	trace     int
	cells     map[int]Value
	havocked  map[int]bool
	overlay   map[string]Value
	uheap     map[string]*Term
	uhavocked map[string]bool
}

func (c *cutSnap) escapes(st *State) string {
	if len(st.Trace) != c.trace {
		return "loop body emits events"
	}
	for k, v := range c.cells {
		if st.Cells[k] != v && !c.havocked[k] {
			return fmt.Sprintf("loop body changes memory cell %d through a callee or pointer", k)
		}
	}
	for k, v := range st.Overlay {
		if c.overlay[k] != v {
			return "loop body writes to caller-visible memory " + k
		}
	}
	for k, v := range st.UHeap {
		if c.uheap[k] != v && !c.uhavocked[k] {
			return "loop body changes the user record field " + k
		}
	}
	return ""
}

func (ex *Executor) cutLoop(st *State, b *ssa.BasicBlock, why string) {
	st.Bounded = true
	st.Note("loop at %s cut after %d iterations (%s)", ex.pos(firstPos(b)), ex.Unroll, why)
	if ex.LoopCuts == nil {
		ex.LoopCuts = map[string]int{}
	}
	ex.LoopCuts[b.Parent().String()+"@"+ex.pos(firstPos(b))+" ("+why+")"]++
}

// paramConst: the constant standing for a parameter. Parameter names repeat
// across functions with different types (s string / s *SMSValidator); the
// symbol table is global, so a name already taken with another sort gets the
// sort appended.
func paramConst(name, sort string) *Term {
	if d := lookupDecl(name); d != nil && (d.Ret != sort || len(d.Args) != 0) {
		return Const(name+"$"+sort, sort)
	}
	return Const(name, sort)
}
