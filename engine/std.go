package main

// Models of standard-library and third-party functions (assumed contracts).

import (
	"go/types"
	"reflect"
	"strings"
)

func pure(name, sort string) EnvFn {
	return func(ex *Executor, st *State, c *callCtx) []callResult {
		var ts []*Term
		for _, a := range c.Args {
			ts = append(ts, ex.asTerm(st, a))
		}
		return one(st, App(name, sort, ts...))
	}
}

func regStd() {
	// ---- context / request ------------------------------------------------
	regEnv("(*net/http.Request).Context", "r.Context(): the request's context (functional model)", func(ex *Executor, st *State, c *callCtx) []callResult {
		return one(st, ex.reqCtx(st, c.Args[0]))
	})
	regEnv("(*net/http.Request).WithContext", "r.WithContext(ctx): same request identity with replaced context; other fields preserved", func(ex *Executor, st *State, c *callCtx) []callResult {
		var base *Term
		switch r := c.Args[0].(type) {
		case *ReqV:
			base = r.Base
		case *Term:
			base = r
		default:
			base = ex.Fresh("req", SInt)
		}
		return one(st, &ReqV{Base: base, Ctx: ex.ctxOf(st, c.Args[1])})
	})
	regEnv("context.WithValue", "context.WithValue: functional map update", func(ex *Executor, st *State, c *callCtx) []callResult {
		p := ex.ctxOf(st, c.Args[0])
		n := &CtxV{Base: p.Base, KV: append(append([]CtxKV(nil), p.KV...), CtxKV{K: c.Args[1], V: c.Args[2]})}
		return one(st, n)
	})
	regEnv("(context.Context).Value", "ctx.Value(key): functional map lookup", func(ex *Executor, st *State, c *callCtx) []callResult {
		ctx := ex.ctxOf(st, c.Recv)
		k := c.Args[0]
		if ki, ok := k.(*IfaceV); ok {
			if kt, ok := ki.V.(*Term); ok {
				if s, ok := kt.StrVal(); ok {
					if isNamedType(ki.Dyn, abPkg, "contextKey") {
						return one(st, ex.ctxLookup(st, ctx, s))
					}
					// other key types: own namespace
					for i := len(ctx.KV) - 1; i >= 0; i-- {
						if ex.valuesEqual(st, ctx.KV[i].K, k) == TTrue {
							return one(st, ctx.KV[i].V)
						}
					}
					return one(st, App("ctxval!"+typeTag(ki.Dyn)+"!"+s, SInt, ctx.Base))
				}
			}
		}
		st.Note("ctx.Value with non-constant key")
		return one(st, ex.Fresh("ctxval", SInt))
	})
	regEnv("context.Background", "context.Background()", func(ex *Executor, st *State, c *callCtx) []callResult {
		return one(st, &CtxV{Base: Const("ctx!background", SInt)})
	})

	// ---- errors -------------------------------------------------------------
	// Error values are structured terms so that what a message was built
	// from stays visible to the information-flow rule (C17): err_new(msg, id)
	// and err_wrap(inner, msg).
	mkNew := func(ex *Executor, st *State, msg *Term) *Term {
		ex.fresh++
		e := App("err_new", SInt, msg, IntLit(int64(ex.fresh)))
		st.Fact(nonNil(e))
		st.Fact(App("fresh_error", SBool, e))
		return e
	}
	regEnv("errors.New", "errors.New(msg): a fresh non-nil error distinct from the package sentinels", func(ex *Executor, st *State, c *callCtx) []callResult {
		return one(st, mkNew(ex, st, ex.asTerm(st, c.Args[0])))
	})
	regEnv("github.com/friendsofgo/errors.New", "errors.New(msg): a fresh non-nil error distinct from the package sentinels", func(ex *Executor, st *State, c *callCtx) []callResult {
		return one(st, mkNew(ex, st, ex.asTerm(st, c.Args[0])))
	})
	regEnv("fmt.Errorf", "fmt.Errorf(format, args...): a fresh non-nil error carrying the formatted message", func(ex *Executor, st *State, c *callCtx) []callResult {
		return one(st, mkNew(ex, st, ex.sprintf(st, c.Args[0], c.Args[1])))
	})
	regEnv("github.com/friendsofgo/errors.Errorf", "errors.Errorf(format, args...): a fresh non-nil error carrying the formatted message", func(ex *Executor, st *State, c *callCtx) []callResult {
		return one(st, mkNew(ex, st, ex.sprintf(st, c.Args[0], c.Args[1])))
	})
	mkWrap := func(ex *Executor, st *State, in, msg *Term) *Term {
		e := App("err_wrap", SInt, in, msg)
		st.Fact(Eq(isNilT(e), isNilT(in)))
		st.Fact(Implies(nonNil(e), App("fresh_error", SBool, e)))
		return e
	}
	regEnv("github.com/friendsofgo/errors.Wrap", "errors.Wrap(err,msg): nil iff err is nil; a wrapped error is not identical to any sentinel and carries msg", func(ex *Executor, st *State, c *callCtx) []callResult {
		return one(st, mkWrap(ex, st, ex.asTerm(st, c.Args[0]), ex.asTerm(st, c.Args[1])))
	})
	regEnv("github.com/friendsofgo/errors.WithMessage", "errors.WithMessage(err,msg): like Wrap", func(ex *Executor, st *State, c *callCtx) []callResult {
		return one(st, mkWrap(ex, st, ex.asTerm(st, c.Args[0]), ex.asTerm(st, c.Args[1])))
	})
	regEnv("github.com/friendsofgo/errors.Wrapf", "errors.Wrapf(err,format,args...): nil iff err is nil; carries the formatted message", func(ex *Executor, st *State, c *callCtx) []callResult {
		return one(st, mkWrap(ex, st, ex.asTerm(st, c.Args[0]), ex.sprintf(st, c.Args[1], c.Args[2])))
	})
	regEnv("github.com/friendsofgo/errors.WithStack", "errors.WithStack(err): nil iff err is nil", func(ex *Executor, st *State, c *callCtx) []callResult {
		return one(st, mkWrap(ex, st, ex.asTerm(st, c.Args[0]), StrLit("")))
	})
	regEnv("(error).Error", "err.Error(): the error's text (function of the error term)", func(ex *Executor, st *State, c *callCtx) []callResult {
		return one(st, App("errtext", SStr, ex.asTerm(st, c.Recv)))
	})

	// ---- fmt ----------------------------------------------------------------
	regEnv("fmt.Sprintf", "fmt.Sprintf(format, args...): uninterpreted function of format and args, except: literal concatenation for %s/%d/%v verbs with scalar args", func(ex *Executor, st *State, c *callCtx) []callResult {
		return one(st, ex.sprintf(st, c.Args[0], c.Args[1]))
	})
	regEnv("fmt.Sprint", "fmt.Sprint(args...): uninterpreted", func(ex *Executor, st *State, c *callCtx) []callResult {
		return one(st, App("sprint", SStr, ex.argsDigest(st, c.Args[0])))
	})
	regEnv("fmt.Fprintf", "fmt.Fprintf(w, format, args...): effect Write(w, text)", func(ex *Executor, st *State, c *callCtx) []callResult {
		txt := ex.sprintf(st, c.Args[1], c.Args[2])
		n, err := ex.Fresh("n", SInt), ex.freshErr(st, "fprintf")
		st.Emit("Write", []Value{c.Args[0], txt}, []Value{n, err}, ex.pos(c.Pos))
		return one(st, &TupleV{V: []Value{n, err}})
	})
	regEnv("fmt.Fprintln", "fmt.Fprintln(w, args...): effect Write(w, text)", func(ex *Executor, st *State, c *callCtx) []callResult {
		txt := App("sprint", SStr, ex.argsDigest(st, c.Args[1]))
		n, err := ex.Fresh("n", SInt), ex.freshErr(st, "fprintln")
		st.Emit("Write", []Value{c.Args[0], txt}, []Value{n, err}, ex.pos(c.Pos))
		return one(st, &TupleV{V: []Value{n, err}})
	})

	// ---- strings / bytes / strconv --------------------------------------------
	regEnv("strings.Contains", "strings.Contains = str.contains", func(ex *Executor, st *State, c *callCtx) []callResult {
		return one(st, Builtin("str.contains", SBool, ex.asTerm(st, c.Args[0]), ex.asTerm(st, c.Args[1])))
	})
	regEnv("strings.HasPrefix", "strings.HasPrefix = str.prefixof", func(ex *Executor, st *State, c *callCtx) []callResult {
		return one(st, Builtin("str.prefixof", SBool, ex.asTerm(st, c.Args[1]), ex.asTerm(st, c.Args[0])))
	})
	regEnv("strings.HasSuffix", "strings.HasSuffix = str.suffixof", func(ex *Executor, st *State, c *callCtx) []callResult {
		return one(st, Builtin("str.suffixof", SBool, ex.asTerm(st, c.Args[1]), ex.asTerm(st, c.Args[0])))
	})
	regEnv("strings.Index", "strings.Index = str.indexof(s, sub, 0)", func(ex *Executor, st *State, c *callCtx) []callResult {
		return one(st, Builtin("str.indexof", SInt, ex.asTerm(st, c.Args[0]), ex.asTerm(st, c.Args[1]), IntLit(0)))
	})
	regEnv("strings.IndexByte", "strings.IndexByte = str.indexof", func(ex *Executor, st *State, c *callCtx) []callResult {
		return one(st, Builtin("str.indexof", SInt, ex.asTerm(st, c.Args[0]), byteStr(ex.asTerm(st, c.Args[1])), IntLit(0)))
	})
	regEnv("bytes.IndexByte", "bytes.IndexByte = str.indexof", func(ex *Executor, st *State, c *callCtx) []callResult {
		return one(st, Builtin("str.indexof", SInt, ex.bytesTerm(st, c.Args[0]), byteStr(ex.asTerm(st, c.Args[1])), IntLit(0)))
	})
	regEnv("bytes.Equal", "bytes.Equal = equality", func(ex *Executor, st *State, c *callCtx) []callResult {
		return one(st, Eq(ex.bytesTerm(st, c.Args[0]), ex.bytesTerm(st, c.Args[1])))
	})
	regEnv("(*regexp.Regexp).MatchString", "Regexp.MatchString(s): uninterpreted predicate regex_match(re, s)", func(ex *Executor, st *State, c *callCtx) []callResult {
		return one(st, App("regex_match", SBool, ex.asTerm(st, c.Args[0]), ex.asTerm(st, c.Args[1])))
	})
	regEnv("io.ReadAll", "io.ReadAll(r): arbitrary bytes or error", func(ex *Executor, st *State, c *callCtx) []callResult {
		b, err := ex.Fresh("body", SStr), ex.freshErr(st, "readall")
		st.Emit("IO.ReadAll", []Value{c.Args[0]}, []Value{&BytesV{T: b}, err}, ex.pos(c.Pos))
		return one(st, &TupleV{V: []Value{&BytesV{T: b}, err}})
	})
	regEnv("net/smtp.SendMail", "smtp.SendMail(addr, auth, from, to, msg): effect (event SMTP.SendMail(addr, from, to) -> err); arbitrary error", func(ex *Executor, st *State, c *callCtx) []callResult {
		err := ex.freshErr(st, "smtp")
		st.Emit("SMTP.SendMail", []Value{c.Args[0], c.Args[2], c.Args[3]}, []Value{err}, ex.pos(c.Pos))
		return one(st, err)
	})
	regEnv("(*net/http.Client).Get", "client.Get(url): a response, or nil and an error (event HTTP.Get(url) -> (resp, err))", func(ex *Executor, st *State, c *callCtx) []callResult {
		resp, err := ex.Fresh("resp", SInt), ex.freshErr(st, "httpget")
		st.Fact(Eq(isNilT(err), nonNil(resp)))
		st.Emit("HTTP.Get", []Value{c.Args[len(c.Args)-1]}, []Value{resp, err}, ex.pos(c.Pos))
		return one(st, &TupleV{V: []Value{resp, err}})
	})
	regEnv("(*net/http.Request).ParseForm", "r.ParseForm(): arbitrary error", func(ex *Executor, st *State, c *callCtx) []callResult {
		return one(st, ex.freshErr(st, "parseform"))
	})
	regEnv("(io.Closer).Close", "Close(): arbitrary error", func(ex *Executor, st *State, c *callCtx) []callResult {
		return one(st, ex.freshErr(st, "close"))
	})
	regEnv("strings.ContainsAny", "strings.ContainsAny(s, chars): some byte of chars occurs in s (literal chars)", func(ex *Executor, st *State, c *callCtx) []callResult {
		s := ex.asTerm(st, c.Args[0])
		chars, ok := ex.asTerm(st, c.Args[1]).StrVal()
		if !ok {
			return one(st, App("str_containsany", SBool, s, ex.asTerm(st, c.Args[1])))
		}
		var ds []*Term
		for i := 0; i < len(chars); i++ {
			ds = append(ds, Builtin("str.contains", SBool, s, StrLit(chars[i:i+1])))
		}
		return one(st, Or(ds...))
	})
	regEnv("strings.ToLower", "strings.ToLower: uninterpreted, idempotent", pure("str_lower", SStr))
	regEnv("strings.ToUpper", "strings.ToUpper: uninterpreted", pure("str_upper", SStr))
	regEnv("strings.TrimSpace", "strings.TrimSpace: uninterpreted", pure("str_trimspace", SStr))
	regEnv("strings.EqualFold", "strings.EqualFold: uninterpreted", pure("str_equalfold", SBool))
	regEnv("strings.Join", "strings.Join(xs, sep): uninterpreted join(xs,sep) with split(join(xs,sep),sep)==xs when no element contains sep and xs non-empty (axiom used in lemmas only)", func(ex *Executor, st *State, c *callCtx) []callResult {
		xs := ex.symSliceArg(st, c.Args[0])
		sep := ex.asTerm(st, c.Args[1])
		if xs == nil {
			return one(st, ex.Fresh("joined", SStr))
		}
		xa := ex.symArr(st, xs)
		j := App("str_join", SStr, xa, xs.Len, sep)
		st.Fact(Implies(Eq(xs.Len, IntLit(0)), Eq(j, StrLit(""))))
		st.Fact(Implies(Eq(xs.Len, IntLit(1)), Eq(j, Select(xa, IntLit(0)))))
		return one(st, j)
	})
	regEnv("strings.Split", "strings.Split(s, sep): symbolic slice split(s,sep), len>=1 for non-empty sep; Split(\"\",sep)==[\"\"]; inverse of Join (lemma axiom)", func(ex *Executor, st *State, c *callCtx) []callResult {
		s, sep := ex.asTerm(st, c.Args[0]), ex.asTerm(st, c.Args[1])
		arr := App("str_split", SArr(SInt, SStr), s, sep)
		ln := App("str_split_len", SInt, s, sep)
		st.Fact(Ge(ln, IntLit(1)))
		st.Fact(Implies(Not(Builtin("str.contains", SBool, s, sep)), And(Eq(ln, IntLit(1)), Eq(Select(arr, IntLit(0)), s))))
		// no element of a split contains the (non-empty) separator
		qi := &Term{Op: "qi", S: SInt}
		st.Fact(Implies(Gt(StrLen(sep), IntLit(0)), quant("forall", "qi", Implies(And(Le(IntLit(0), qi), Lt(qi, ln)), Not(Builtin("str.contains", SBool, sel(arr, qi), sep))))))
		// Join(Split(s, sep), sep) == s, spelled out for the short lists the library parses
		for n := 2; n <= 4; n++ {
			parts := []*Term{Select(arr, IntLit(0))}
			for k := 1; k < n; k++ {
				parts = append(parts, sep, Select(arr, IntLit(int64(k))))
			}
			st.Fact(Implies(Eq(ln, IntLit(int64(n))), Eq(s, StrCat(parts...))))
		}
		return one(st, ex.newSymSlice(st, arr, ln, types.Typ[types.String]))
	})
	regEnv("(*golang.org/x/oauth2.Config).AuthCodeURL", "oauth2 Config.AuthCodeURL(state): uninterpreted function of (config, state)", func(ex *Executor, st *State, c *callCtx) []callResult {
		return one(st, App("authcodeurl", SStr, ex.asTerm(st, c.Args[0]), ex.asTerm(st, c.Args[1])))
	})
	regEnv("(*golang.org/x/oauth2.Config).Exchange", "oauth2 Config.Exchange(ctx, code): arbitrary (token, error); nil error comes with a non-nil token", func(ex *Executor, st *State, c *callCtx) []callResult {
		tok, err := ex.freshRef(st, "token"), ex.freshErr(st, "exchange")
		st.Fact(Implies(isNilT(err), nonNil(tok)))
		st.Emit("CallFuncValue", append([]Value{StrLit("oauth2.Exchange")}, c.Args...), []Value{tok, err}, ex.pos(c.Pos))
		return one(st, &TupleV{V: []Value{tok, err}})
	})
	regEnv("golang.org/x/crypto/bcrypt.CompareHashAndPassword", "bcrypt.CompareHashAndPassword(h,p)==nil <=> hash_ok(h,p)", func(ex *Executor, st *State, c *callCtx) []callResult {
		h, p := ex.bytesTerm(st, c.Args[0]), ex.bytesTerm(st, c.Args[1])
		err := ex.freshErr(st, "bcrypt")
		st.Fact(Eq(isNilT(err), App("hash_ok", SBool, h, p)))
		return one(st, err)
	})
	regEnv("golang.org/x/crypto/bcrypt.GenerateFromPassword", "bcrypt.GenerateFromPassword(p,cost): err==nil => result == hash_of(p,salt) with hash_ok(result,p)", func(ex *Executor, st *State, c *callCtx) []callResult {
		p := ex.bytesTerm(st, c.Args[0])
		err := ex.freshErr(st, "bcryptgen")
		salt := ex.Fresh("salt", SInt)
		h := App("hash_of", SStr, p, salt)
		st.Fact(App("hash_ok", SBool, h, p))
		st.Fact(Gt(StrLen(h), IntLit(0)))
		res := ex.Fresh("bcrypthash", SStr)
		st.Fact(Implies(isNilT(err), Eq(res, h)))
		return one(st, &TupleV{V: []Value{&BytesV{T: res}, err}})
	})
	regEnv("github.com/pquerna/otp/totp.Validate", "totp.Validate(code, secret) = totp_ok(code, secret) (uninterpreted; constant within a request)", func(ex *Executor, st *State, c *callCtx) []callResult {
		return one(st, App("totp_ok", SBool, ex.asTerm(st, c.Args[0]), ex.asTerm(st, c.Args[1])))
	})
	regEnv("github.com/pquerna/otp/totp.Generate", "totp.Generate(opts): a key with a fresh secret, or an error", func(ex *Executor, st *State, c *callCtx) []callResult {
		k, err := ex.freshRef(st, "totpkey"), ex.freshErr(st, "totpgen")
		st.Fact(Implies(isNilT(err), nonNil(k)))
		return one(st, &TupleV{V: []Value{k, err}})
	})
	regEnv("(*github.com/pquerna/otp.Key).Secret", "Key.Secret(): the key's secret (function of the key)", func(ex *Executor, st *State, c *callCtx) []callResult {
		return one(st, App("totp_secret_of", SStr, ex.asTerm(st, c.Args[0])))
	})
	regEnv("sort.SearchStrings", "sort.SearchStrings(a, x): some index in [0, len(a)] (binary search result not modelled further)", func(ex *Executor, st *State, c *callCtx) []callResult {
		n := ex.Fresh("searchidx", SInt)
		st.Fact(And(Ge(n, IntLit(0)), Le(n, ex.lenOf(st, c.Args[0]))))
		return one(st, n)
	})
	regEnv("sort.Strings", "sort.Strings(a): permutes a in place (content not tracked)", func(ex *Executor, st *State, c *callCtx) []callResult {
		st.Emit("SortInPlace", []Value{c.Args[0]}, nil, ex.pos(c.Pos))
		return one(st, nil)
	})
	regEnv("path/filepath.Base", "filepath.Base: uninterpreted", pure("filepath_base", SStr))
	regEnv("strconv.Itoa", "strconv.Itoa = str.from_int for n>=0 (uninterpreted otherwise)", func(ex *Executor, st *State, c *callCtx) []callResult {
		n := ex.asTerm(st, c.Args[0])
		return one(st, App("itoa", SStr, n))
	})
	regEnv("strconv.ParseInt", "strconv.ParseInt(s,10,64): ParseInt(FormatInt(n)) == n; arbitrary error otherwise", func(ex *Executor, st *State, c *callCtx) []callResult {
		s := ex.asTerm(st, c.Args[0])
		// (a strconv error quotes its input: the error term carries the operand)
		err := App(strings.Trim(ex.Fresh("parseint_err", SInt).Op, "|")+"!of", SInt, s)
		return one(st, &TupleV{V: []Value{App("atoi", SInt, s), err}})
	})
	regEnv("strconv.FormatInt", "strconv.FormatInt(n,10): itoa(n)", func(ex *Executor, st *State, c *callCtx) []callResult {
		n := ex.asTerm(st, c.Args[0])
		t := App("itoa", SStr, n)
		st.Fact(Eq(App("atoi", SInt, t), n))
		return one(st, t)
	})
	regEnv("strconv.Atoi", "strconv.Atoi: Atoi(Itoa(n)) == n", func(ex *Executor, st *State, c *callCtx) []callResult {
		s := ex.asTerm(st, c.Args[0])
		err := App(strings.Trim(ex.Fresh("atoi_err", SInt).Op, "|")+"!of", SInt, s)
		st.Fact(Or(isNilT(err), App("env_error", SBool, err)))
		return one(st, &TupleV{V: []Value{App("atoi", SInt, s), err}})
	})

	// ---- strings.Builder ----------------------------------------------------------
	// A builder that lives in a local cell (new(strings.Builder), var sb strings.Builder) keeps
	// its text as a string term in the struct's buf field; every write appends.
	builderGet := func(ex *Executor, st *State, recv Value) (*PtrV, *Term) {
		p, ok := recv.(*PtrV)
		if !ok {
			return nil, nil
		}
		sv, ok := ex.load(st, p, nil).(*StructV)
		if !ok || len(sv.F) != 2 {
			return nil, nil
		}
		if b, ok := sv.F[1].(*BytesV); ok {
			return p, b.T
		}
		return nil, nil
	}
	builderAppend := func(name, doc string, piece func(ex *Executor, st *State, c *callCtx) (*Term, Value)) {
		regEnv("(*strings.Builder)."+name, doc, func(ex *Executor, st *State, c *callCtx) []callResult {
			add, ret := piece(ex, st, c)
			if p, cur := builderGet(ex, st, c.Args[0]); p != nil && add != nil {
				sv := ex.load(st, p, nil).(*StructV)
				nv := &StructV{T: sv.T, F: []Value{sv.F[0], &BytesV{T: StrCat(cur, add)}}}
				ex.store(st, p, nv)
			} else {
				st.Note("strings.Builder.%s on %s", name, showValue(c.Args[0]))
			}
			return one(st, ret)
		})
	}
	builderAppend("WriteByte", "sb.WriteByte(c): appends the one byte c; the error is always nil", func(ex *Executor, st *State, c *callCtx) (*Term, Value) {
		b := ex.asTerm(st, c.Args[1])
		ch := Builtin("str.from_code", SStr, b)
		st.Fact(Implies(And(Ge(b, IntLit(0)), Lt(b, IntLit(256))), Eq(StrLen(ch), IntLit(1))))
		return ch, IntLit(0)
	})
	builderAppend("WriteString", "sb.WriteString(s): appends s; returns (len(s), nil)", func(ex *Executor, st *State, c *callCtx) (*Term, Value) {
		s := ex.asTerm(st, c.Args[1])
		return s, &TupleV{V: []Value{StrLen(s), IntLit(0)}}
	})
	builderAppend("Write", "sb.Write(p): appends p; returns (len(p), nil)", func(ex *Executor, st *State, c *callCtx) (*Term, Value) {
		s := ex.bytesTerm(st, c.Args[1])
		if s == nil {
			return nil, &TupleV{V: []Value{ex.Fresh("n", SInt), IntLit(0)}}
		}
		return s, &TupleV{V: []Value{StrLen(s), IntLit(0)}}
	})
	builderAppend("WriteRune", "sb.WriteRune(r): appends the UTF-8 encoding of r (1 to 4 bytes, uninterpreted); the error is always nil", func(ex *Executor, st *State, c *callCtx) (*Term, Value) {
		enc := App("utf8enc", SStr, ex.asTerm(st, c.Args[1]))
		st.Fact(And(Ge(StrLen(enc), IntLit(1)), Le(StrLen(enc), IntLit(4))))
		return enc, &TupleV{V: []Value{StrLen(enc), IntLit(0)}}
	})
	regEnv("(*strings.Builder).String", "sb.String(): the text appended so far", func(ex *Executor, st *State, c *callCtx) []callResult {
		if _, cur := builderGet(ex, st, c.Args[0]); cur != nil {
			return one(st, cur)
		}
		st.Note("strings.Builder.String on %s", showValue(c.Args[0]))
		return one(st, ex.Fresh("sbtext", SStr))
	})
	regEnv("(*strings.Builder).Len", "sb.Len(): length of the text appended so far", func(ex *Executor, st *State, c *callCtx) []callResult {
		if _, cur := builderGet(ex, st, c.Args[0]); cur != nil {
			return one(st, StrLen(cur))
		}
		n := ex.Fresh("sblen", SInt)
		st.Fact(Ge(n, IntLit(0)))
		return one(st, n)
	})
	regEnv("(*strings.Builder).Grow", "sb.Grow(n): capacity only, the text is unchanged", func(ex *Executor, st *State, c *callCtx) []callResult {
		return one(st, nil)
	})

	// ---- crypto -----------------------------------------------------------------
	regEnv("crypto/sha512.Sum512", "sha512.Sum512: total, 64-byte output, injective (collision resistance, cryptographic assumption), inverse function sha_inv exists only as a proof device", func(ex *Executor, st *State, c *callCtx) []callResult {
		in := ex.bytesTerm(st, c.Args[0])
		out := App("sha512", SStr, in)
		st.Fact(Eq(StrLen(out), IntLit(64)))
		st.Fact(Eq(App("sha_inv", SStr, out), in))
		return one(st, &BytesV{T: out})
	})
	b64 := func(encName string) func(ex *Executor, st *State, recv Value) string {
		return nil
	}
	_ = b64
	regEnv("(*encoding/base64.Encoding).EncodeToString", "base64 EncodeToString: total; DecodeString(EncodeToString(b)) == b (per encoding)", func(ex *Executor, st *State, c *callCtx) []callResult {
		enc := ex.b64Name(st, c.Args[0])
		in := ex.bytesTerm(st, c.Args[1])
		out := App("b64enc!"+enc, SStr, in)
		st.Fact(Eq(App("b64dec!"+enc, SStr, out), in))
		st.Fact(App("b64ok!"+enc, SBool, out))
		st.Fact(Eq(Eq(StrLen(out), IntLit(0)), Eq(StrLen(in), IntLit(0))))
		return one(st, out)
	})
	// EncodedLen as encoding/base64 computes it: padded alphabets (n+2)/3*4, raw ones n/3*4 + (n%3*8+5)/6
	Div := func(a, b *Term) *Term { return Builtin("div", SInt, a, b) }
	Mod := func(a, b *Term) *Term { return Builtin("mod", SInt, a, b) }
	b64Len := func(enc string, n *Term) *Term {
		if strings.HasPrefix(enc, "raw") {
			return Add(Mul(Div(n, IntLit(3)), IntLit(4)), Div(Add(Mul(Mod(n, IntLit(3)), IntLit(8)), IntLit(5)), IntLit(6)))
		}
		return Mul(Div(Add(n, IntLit(2)), IntLit(3)), IntLit(4))
	}
	regEnv("(*encoding/base64.Encoding).EncodedLen", "base64 EncodedLen(n): (n+2)/3*4 for the padded alphabets, n/3*4 + (n%3*8+5)/6 for the raw ones", func(ex *Executor, st *State, c *callCtx) []callResult {
		return one(st, b64Len(ex.b64Name(st, c.Args[0]), ex.asTerm(st, c.Args[1])))
	})
	regEnv("(*encoding/base64.Encoding).Encode", "base64 Encode(dst, src): writes EncodeToString(src), EncodedLen(len(src)) bytes, at the start of dst; panics when dst is shorter", func(ex *Executor, st *State, c *callCtx) []callResult {
		enc := ex.b64Name(st, c.Args[0])
		in := ex.bytesTerm(st, c.Args[2])
		out := App("b64enc!"+enc, SStr, in)
		st.Fact(Eq(App("b64dec!"+enc, SStr, out), in))
		st.Fact(App("b64ok!"+enc, SBool, out))
		st.Fact(Eq(StrLen(out), b64Len(enc, StrLen(in))))
		if b, ok := c.Args[1].(*BufV); ok {
			ex.safetyQueue(st, Ge(Sub(b.Hi, b.Lo), StrLen(out)), "base64 Encode into a short buffer", c.Pos)
			ex.bufWrite(st, b, IntLit(0), out)
		} else {
			st.Note("base64 Encode into %s", showValue(c.Args[1]))
		}
		return one(st, &TupleV{})
	})
	regEnv("(*encoding/base64.Encoding).DecodeString", "base64 DecodeString: err==nil <=> b64ok(s); result == b64dec(s); EncodeToString(dec) may differ from s (non-canonical spellings)", func(ex *Executor, st *State, c *callCtx) []callResult {
		enc := ex.b64Name(st, c.Args[0])
		in := ex.asTerm(st, c.Args[1])
		err := ex.freshErr(st, "b64")
		out := App("b64dec!"+enc, SStr, in)
		st.Fact(Eq(isNilT(err), App("b64ok!"+enc, SBool, in)))
		return one(st, &TupleV{V: []Value{&BytesV{T: out}, err}})
	})
	regEnv("crypto/subtle.ConstantTimeCompare", "subtle.ConstantTimeCompare(a,b)==1 <=> a==b, else 0", func(ex *Executor, st *State, c *callCtx) []callResult {
		a, b := ex.bytesTerm(st, c.Args[0]), ex.bytesTerm(st, c.Args[1])
		return one(st, Ite(Eq(a, b), IntLit(1), IntLit(0)))
	})
	regEnv("crypto/subtle.ConstantTimeEq", "subtle.ConstantTimeEq(x,y)==1 <=> x==y", func(ex *Executor, st *State, c *callCtx) []callResult {
		a, b := ex.asTerm(st, c.Args[0]), ex.asTerm(st, c.Args[1])
		return one(st, Ite(Eq(a, b), IntLit(1), IntLit(0)))
	})
	readRand := func(ex *Executor, st *State, c *callCtx, bufArg Value) []callResult {
		n, err := ex.Fresh("n", SInt), ex.freshErr(st, "randread")
		if b, ok := bufArg.(*BufV); ok {
			nw := ex.Fresh("rnd", SStr)
			st.Fact(Eq(StrLen(nw), Sub(b.Hi, b.Lo)))
			ex.bufWrite(st, b, IntLit(0), nw)
			st.Emit("Rand.Read", []Value{nw}, []Value{err}, ex.pos(c.Pos))
		} else {
			st.Note("random read into %s", showValue(bufArg))
		}
		return one(st, &TupleV{V: []Value{n, err}})
	}
	regEnv("io.ReadFull", "io.ReadFull(rand.Reader, buf): fills buf with arbitrary bytes or returns an error (unguessability not modelled)", func(ex *Executor, st *State, c *callCtx) []callResult {
		return readRand(ex, st, c, c.Args[1])
	})
	regEnv("crypto/rand.Read", "rand.Read(buf): fills buf with arbitrary bytes or returns an error", func(ex *Executor, st *State, c *callCtx) []callResult {
		return readRand(ex, st, c, c.Args[0])
	})

	// ---- time -------------------------------------------------------------------
	regEnv("time.Now", "time.Now(): monotone non-decreasing within a request", func(ex *Executor, st *State, c *callCtx) []callResult {
		st.NowSeq++
		n := ex.Fresh("now", SInt)
		if st.LastNow != nil {
			st.Fact(Ge(n, st.LastNow))
		}
		st.LastNow = n
		st.Emit("Now", nil, []Value{n}, ex.pos(c.Pos))
		return one(st, &TimeV{T: n})
	})
	regEnv("(time.Time).UTC", "t.UTC(): same instant", func(ex *Executor, st *State, c *callCtx) []callResult { return one(st, c.Args[0]) })
	regEnv("(time.Time).Add", "t.Add(d): t+d (mathematical)", func(ex *Executor, st *State, c *callCtx) []callResult {
		return one(st, &TimeV{T: Add(timeT(ex, st, c.Args[0]), ex.asTerm(st, c.Args[1]))})
	})
	regEnv("(time.Time).Sub", "t.Sub(u): t-u (mathematical, no saturation)", func(ex *Executor, st *State, c *callCtx) []callResult {
		return one(st, Sub(timeT(ex, st, c.Args[0]), timeT(ex, st, c.Args[1])))
	})
	regEnv("(time.Time).After", "t.After(u): t>u", func(ex *Executor, st *State, c *callCtx) []callResult {
		return one(st, Gt(timeT(ex, st, c.Args[0]), timeT(ex, st, c.Args[1])))
	})
	regEnv("(time.Time).Before", "t.Before(u): t<u", func(ex *Executor, st *State, c *callCtx) []callResult {
		return one(st, Lt(timeT(ex, st, c.Args[0]), timeT(ex, st, c.Args[1])))
	})
	regEnv("(time.Time).Equal", "t.Equal(u): t==u", func(ex *Executor, st *State, c *callCtx) []callResult {
		return one(st, Eq(timeT(ex, st, c.Args[0]), timeT(ex, st, c.Args[1])))
	})
	regEnv("(time.Time).IsZero", "t.IsZero(): t == zero instant", func(ex *Executor, st *State, c *callCtx) []callResult {
		return one(st, Eq(timeT(ex, st, c.Args[0]), timeZero))
	})
	regEnv("(time.Time).Format", "t.Format(layout): uninterpreted; Parse(RFC3339, Format(RFC3339, t)) == floor(t/1e9)*1e9", func(ex *Executor, st *State, c *callCtx) []callResult {
		t := timeT(ex, st, c.Args[0])
		lay := ex.asTerm(st, c.Args[1])
		f := App("time_format", SStr, t, lay)
		st.Fact(Eq(App("time_parse", SInt, lay, f), Mul(Builtin("div", SInt, t, IntLit(1000000000)), IntLit(1000000000))))
		st.Fact(App("time_parse_ok", SBool, lay, f))
		return one(st, f)
	})
	regEnv("time.Parse", "time.Parse(layout, s): err==nil <=> time_parse_ok(layout,s); value time_parse(layout,s)", func(ex *Executor, st *State, c *callCtx) []callResult {
		lay, s := ex.asTerm(st, c.Args[0]), ex.asTerm(st, c.Args[1])
		err := ex.freshErr(st, "timeparse")
		st.Fact(Eq(isNilT(err), App("time_parse_ok", SBool, lay, s)))
		return one(st, &TupleV{V: []Value{&TimeV{T: App("time_parse", SInt, lay, s)}, err}})
	})
	regEnv("(time.Time).Unix", "t.Unix(): floor(t/1e9)", func(ex *Executor, st *State, c *callCtx) []callResult {
		return one(st, Builtin("div", SInt, timeT(ex, st, c.Args[0]), IntLit(1000000000)))
	})
	regEnv("time.Since", "time.Since(t): now - t", func(ex *Executor, st *State, c *callCtx) []callResult {
		n := ex.Fresh("now", SInt)
		if st.LastNow != nil {
			st.Fact(Ge(n, st.LastNow))
		}
		st.LastNow = n
		return one(st, Sub(n, timeT(ex, st, c.Args[0])))
	})

	// ---- net/http -----------------------------------------------------------------
	regEnv("(*net/http.ServeMux).ServeHTTP", "mux.ServeHTTP(w, r): effect (the routes registered on that mux decide what runs)", func(ex *Executor, st *State, c *callCtx) []callResult {
		st.Emit("Mux.ServeHTTP", []Value{c.Args[0], c.Args[1], c.Args[2]}, nil, ex.pos(c.Pos))
		return one(st, nil)
	})
	regEnv("(*net/http.ServeMux).Handle", "mux.Handle(pattern, h): effect (registration)", func(ex *Executor, st *State, c *callCtx) []callResult {
		st.Emit("Mux.Handle", []Value{c.Args[0], c.Args[1], c.Args[2]}, nil, ex.pos(c.Pos))
		return one(st, nil)
	})
	regEnv("(net/http.ResponseWriter).WriteHeader", "w.WriteHeader(code): effect", func(ex *Executor, st *State, c *callCtx) []callResult {
		st.Emit("WriteHeader", []Value{c.Recv, c.Args[0]}, nil, ex.pos(c.Pos))
		return one(st, nil)
	})
	regEnv("(net/http.ResponseWriter).Write", "w.Write(b): effect; arbitrary (n, err)", func(ex *Executor, st *State, c *callCtx) []callResult {
		n, err := ex.Fresh("n", SInt), ex.freshErr(st, "write")
		st.Emit("Write", []Value{c.Recv, c.Args[0]}, []Value{n, err}, ex.pos(c.Pos))
		return one(st, &TupleV{V: []Value{n, err}})
	})
	regEnv("(net/http.ResponseWriter).Header", "w.Header(): the writer's header map (identity function of w)", func(ex *Executor, st *State, c *callCtx) []callResult {
		return one(st, App("header_of", SInt, ex.asTerm(st, c.Recv)))
	})
	regEnv("(net/http.Header).Set", "Header.Set(k,v): effect", func(ex *Executor, st *State, c *callCtx) []callResult {
		st.Emit("HeaderSet", []Value{c.Args[0], c.Args[1], c.Args[2]}, nil, ex.pos(c.Pos))
		return one(st, nil)
	})
	regEnv("(net/http.Header).Get", "Header.Get(k): pure", func(ex *Executor, st *State, c *callCtx) []callResult {
		return one(st, App("header_get", SStr, ex.asTerm(st, c.Args[0]), ex.asTerm(st, c.Args[1])))
	})
	regEnv("net/http.Redirect", "http.Redirect(w,r,url,code): effect HTTPRedirect", func(ex *Executor, st *State, c *callCtx) []callResult {
		st.Emit("HTTPRedirect", []Value{c.Args[0], c.Args[2], c.Args[3]}, nil, ex.pos(c.Pos))
		return one(st, nil)
	})
	regEnv("(net/http.Handler).ServeHTTP", "next.ServeHTTP(w,r): effect (the wrapped handler runs)", func(ex *Executor, st *State, c *callCtx) []callResult {
		if cv, ok := c.Recv.(*ClosureV); ok {
			return ex.callFunc(st, c.Fr, cv.Fn, c.Args, cv.Bind, c.Pos, c.Site)
		}
		ctx := ex.reqCtx(st, c.Args[1])
		st.Emit("Next.ServeHTTP", []Value{c.Recv, c.Args[0], c.Args[1], ex.ctxLookup(st, ctx, "user"), ex.ctxLookup(st, ctx, "pid"), ex.ctxLookup(st, ctx, "session")}, nil, ex.pos(c.Pos))
		return one(st, nil)
	})
	regEnv("(net/http.HandlerFunc).ServeHTTP", "HandlerFunc.ServeHTTP(w,r) = f(w,r)", func(ex *Executor, st *State, c *callCtx) []callResult {
		switch f := c.Args[0].(type) {
		case *ClosureV:
			return ex.callFunc(st, c.Fr, f.Fn, c.Args[1:], f.Bind, c.Pos, c.Site)
		case *FuncV:
			return ex.callFunc(st, c.Fr, f.Fn, c.Args[1:], nil, c.Pos, c.Site)
		}
		st.Emit("Next.ServeHTTP", append([]Value{c.Args[0]}, c.Args[1:]...), nil, ex.pos(c.Pos))
		return one(st, nil)
	})
	regEnv("(*net/http.Request).FormValue", "r.FormValue(k): pure function of (r,k)", func(ex *Executor, st *State, c *callCtx) []callResult {
		return one(st, App("form_value", SStr, reqBase(ex, st, c.Args[0]), ex.asTerm(st, c.Args[1])))
	})
	regEnv("(*net/url.URL).String", "u.String(): the full URL text, including the query string", func(ex *Executor, st *State, c *callCtx) []callResult {
		return one(st, App("url_string", SStr, ex.asTerm(st, c.Args[0])))
	})
	regEnv("(*net/url.URL).Query", "u.Query(): pure function of u", func(ex *Executor, st *State, c *callCtx) []callResult {
		return one(st, App("url_query", SInt, ex.asTerm(st, c.Args[0])))
	})
	regEnv("(net/url.Values).Get", "Values.Get(k): pure", func(ex *Executor, st *State, c *callCtx) []callResult {
		return one(st, App("values_get", SStr, ex.asTerm(st, c.Args[0]), ex.asTerm(st, c.Args[1])))
	})
	regEnv("(net/url.Values).Set", "Values.Set(k,v): map update", func(ex *Executor, st *State, c *callCtx) []callResult {
		ex.mapUpdate(st, c.Args[0], c.Args[1], c.Args[2])
		return one(st, nil)
	})
	regEnv("(net/url.Values).Encode", "Values.Encode(): uninterpreted injective encoding of the map (decode-after-encode axiom)", func(ex *Executor, st *State, c *callCtx) []callResult {
		return one(st, App("values_encode", SStr, ex.mapDigest(st, c.Args[0])))
	})
	regEnv("path.Join", "path.Join(a,b..): uninterpreted", func(ex *Executor, st *State, c *callCtx) []callResult {
		elems := ex.sliceElems(st, c.Args[0])
		var ts []*Term
		for _, e := range elems {
			ts = append(ts, ex.asTerm(st, e))
		}
		t := StrLit("")
		for i, e := range ts {
			if i == 0 {
				t = e
				continue
			}
			t = App("path_join", SStr, t, e)
		}
		return one(st, t)
	})
	regEnv("net/url.QueryEscape", "url.QueryEscape: uninterpreted", pure("query_escape", SStr))
	regEnv("encoding/json.Marshal", "json.Marshal(v): uninterpreted encoding or error", func(ex *Executor, st *State, c *callCtx) []callResult {
		err := ex.freshErr(st, "json")
		out := App("json_marshal", SStr, ex.valueDigest(st, c.Args[0]))
		return one(st, &TupleV{V: []Value{&BytesV{T: out}, err}})
	})
	regEnv("encoding/json.Unmarshal", "json.Unmarshal(b, &v): arbitrary content or error", func(ex *Executor, st *State, c *callCtx) []callResult {
		err := ex.freshErr(st, "unjson")
		if bt := ex.bytesTerm(st, c.Args[0]); bt != nil {
			// (json_ok names the outcome so that a replay can choose a decodable input)
			st.Fact(Eq(isNilT(err), App("json_ok", SBool, bt)))
		}
		if p, ok := c.Args[1].(*IfaceV); ok {
			if pv, ok := p.V.(*PtrV); ok {
				pt := p.Dyn.Underlying().(*types.Pointer).Elem()
				if mt, ok := pt.Underlying().(*types.Map); ok {
					base := App("json_unmarshal_map", SInt, ex.bytesTerm(st, c.Args[0]))
					cell := ex.newCell(st, &MapData{Base: base, T: mt})
					ex.store(st, pv, &MapV{Cell: cell})
				} else {
					hv := ex.havoc(st, pt, "unjson")
					// a string field decodes to the JSON string of the member its tag
					// names, verbatim (json_str); other field types stay arbitrary
					if sv, ok := hv.(*StructV); ok {
						if bt := ex.bytesTerm(st, c.Args[0]); bt != nil {
							stt := pt.Underlying().(*types.Struct)
							for i := 0; i < stt.NumFields(); i++ {
								ft, isT := sv.F[i].(*Term)
								if !isT || ft.S != SStr || !stt.Field(i).Exported() {
									continue
								}
								name := stt.Field(i).Name()
								if tag := reflect.StructTag(stt.Tag(i)).Get("json"); tag != "" {
									if n := strings.Split(tag, ",")[0]; n == "-" {
										continue
									} else if n != "" {
										name = n
									}
								}
								st.Fact(Implies(isNilT(err), Eq(ft, App("json_str", SStr, bt, StrLit(name)))))
							}
						}
					}
					ex.store(st, pv, hv)
				}
			}
		}
		return one(st, err)
	})
}

func byteStr(t *Term) *Term {
	if n, ok := t.IntVal(); ok && n >= 0 && n < 256 {
		return StrLit(string([]byte{byte(n)}))
	}
	return Builtin("str.from_code", SStr, t)
}

func timeT(ex *Executor, st *State, v Value) *Term {
	if t, ok := v.(*TimeV); ok {
		return t.T
	}
	return ex.Fresh("time", SInt)
}

func reqBase(ex *Executor, st *State, v Value) *Term {
	switch r := v.(type) {
	case *ReqV:
		return r.Base
	case *Term:
		return r
	}
	return ex.Fresh("req", SInt)
}

func (ex *Executor) b64Name(st *State, v Value) string {
	// encodings are package-level variables: base64.StdEncoding / URLEncoding
	if t, ok := v.(*Term); ok {
		s := t.String()
		switch {
		case strings.Contains(s, "RawURLEncoding"):
			return "rawurl"
		case strings.Contains(s, "RawStdEncoding"):
			return "rawstd"
		case strings.Contains(s, "URLEncoding"):
			return "url"
		case strings.Contains(s, "StdEncoding"):
			return "std"
		}
	}
	st.Note("unknown base64 encoding %s", showValue(v))
	return "unknown"
}

func (ex *Executor) symSliceArg(st *State, v Value) *SymSliceV {
	switch x := v.(type) {
	case *SymSliceV:
		return x
	case *SliceV:
		return ex.toSymSlice(st, x, types.NewSlice(types.Typ[types.String]))
	}
	return nil
}

func (ex *Executor) mapDigest(st *State, v Value) *Term {
	md, _ := ex.mapData(st, v)
	if md == nil {
		return ex.asTerm(st, v)
	}
	t := IntLit(0)
	if md.Base != nil {
		t = md.Base
	}
	for _, u := range md.Upd {
		kt := ex.asTerm(st, u.K)
		if u.Del {
			t = App("mapdel!"+kt.S, SInt, t, kt)
			continue
		}
		vt := ex.valueDigest(st, u.V)
		t = App("mapput!"+kt.S+"!"+vt.S, SInt, t, kt, vt)
	}
	return t
}

// valueDigest folds an arbitrary value into one term that has every scalar
// component as a subterm (used for information-flow and determinism only).
func (ex *Executor) valueDigest(st *State, v Value) *Term {
	switch x := v.(type) {
	case *MapV:
		return ex.mapDigest(st, x)
	case *IfaceV:
		if inner, ok := x.V.(*Term); ok {
			return inner
		}
		return ex.valueDigest(st, x.V)
	case *StructV:
		t := IntLit(0)
		for _, f := range x.F {
			ft := ex.valueDigest(st, f)
			t = App("tup!"+ft.S, SInt, t, ft)
		}
		return t
	case *SliceV:
		t := IntLit(0)
		for _, e := range ex.sliceElems(st, x) {
			et := ex.valueDigest(st, e)
			t = App("tup!"+et.S, SInt, t, et)
		}
		return t
	}
	return ex.asTerm(st, v)
}

// sprintf models fmt.Sprintf: exact concatenation for the simple verbs used in
// the repository when the format is a literal; otherwise uninterpreted over
// (format, args).
func (ex *Executor) sprintf(st *State, format Value, args Value) *Term {
	ft := ex.asTerm(st, format)
	elems := ex.sliceElems(st, args)
	if f, ok := ft.StrVal(); ok {
		var parts []*Term
		ai := 0
		okAll := true
		for i := 0; i < len(f); i++ {
			if f[i] != '%' {
				j := i
				for j < len(f) && f[j] != '%' {
					j++
				}
				parts = append(parts, StrLit(f[i:j]))
				i = j - 1
				continue
			}
			if i+1 >= len(f) {
				okAll = false
				break
			}
			verb := f[i+1]
			i++
			if verb == '%' {
				parts = append(parts, StrLit("%"))
				continue
			}
			if ai >= len(elems) {
				okAll = false
				break
			}
			a := elems[ai]
			ai++
			at := ex.valueDigest(st, a)
			switch {
			case (verb == 's' || verb == 'v') && at.S == SStr:
				parts = append(parts, at)
			case (verb == 'd' || verb == 'v') && at.S == SInt:
				parts = append(parts, App("itoa", SStr, at))
			default:
				parts = append(parts, App("fmtverb!"+string(verb)+"!"+at.S, SStr, at))
			}
		}
		if okAll && ai == len(elems) {
			return StrCat(parts...)
		}
	}
	out := App("sprintf", SStr, ft, ex.argsDigest(st, args))
	// a format without verbs and no operands is printed as it is
	var n *Term
	switch a := args.(type) {
	case *SymSliceV:
		n = a.Len
	case *SliceV:
		n = IntLit(int64(len(elems)))
	case *Term:
		if a.S == SInt {
			n = App("slen", SInt, a)
		}
	}
	if n != nil {
		st.Fact(Implies(And(Eq(n, IntLit(0)), Not(Builtin("str.contains", SBool, ft, StrLit("%")))), Eq(out, ft)))
	}
	return out
}

// sel builds a select without simplification (for quantified bodies).
func sel(arr, idx *Term) *Term {
	return &Term{Op: "select", Args: []*Term{arr, idx}, S: elemSort(arr.S)}
}

// quant builds (forall|exists ((v Int)) body).
func quant(q, v string, body *Term) *Term {
	t := &Term{Op: q, Args: []*Term{body}, S: SBool}
	t.str = "(" + q + " ((" + v + " Int)) " + body.String() + ")"
	return t
}
