// Axiom sanity (DESIGN 5.4): every assumed contract of the environment table that speaks
// about a real standard-library function is evaluated here on concrete values with the
// real library. A failure means an axiom of the trusted base is false - a machinery error,
// never a property violation. This is a guard on the assumptions, not part of any proof.
package axioms

import (
	"bytes"
	"crypto/sha512"
	"crypto/subtle"
	"encoding/base64"
	"fmt"
	"math/rand"
	"net/http"
	"net/http/httptest"
	"strconv"
	"strings"
	"testing"
	"time"
	"unicode/utf8"
)

var encs = map[string]*base64.Encoding{"std": base64.StdEncoding, "url": base64.URLEncoding, "rawstd": base64.RawStdEncoding, "rawurl": base64.RawURLEncoding}

func encodedLenModel(name string, n int) int {
	if strings.HasPrefix(name, "raw") {
		return n/3*4 + (n%3*8+5)/6
	}
	return (n + 2) / 3 * 4
}

func TestBase64(t *testing.T) {
	rnd := rand.New(rand.NewSource(1))
	for name, enc := range encs {
		for n := 0; n <= 300; n++ {
			if got := enc.EncodedLen(n); got != encodedLenModel(name, n) {
				t.Fatalf("%s EncodedLen(%d)=%d model %d", name, n, got, encodedLenModel(name, n))
			}
			src := make([]byte, n)
			rnd.Read(src)
			s := enc.EncodeToString(src)
			if len(s) != enc.EncodedLen(n) {
				t.Fatalf("%s len(EncodeToString) != EncodedLen at %d", name, n)
			}
			if (len(s) == 0) != (n == 0) {
				t.Fatalf("%s empty iff empty", name)
			}
			if strings.ContainsAny(s, ",;") {
				t.Fatalf("%s alphabet contains a separator: %q", name, s)
			}
			back, err := enc.DecodeString(s)
			if err != nil || !bytes.Equal(back, src) {
				t.Fatalf("%s decode(encode(b)) != b at %d", name, n)
			}
			// Encode(dst, src) writes EncodeToString(src) at the start of dst and nothing else
			dst := bytes.Repeat([]byte{0xEE}, len(s)+7)
			enc.Encode(dst, src)
			if string(dst[:len(s)]) != s || !bytes.Equal(dst[len(s):], bytes.Repeat([]byte{0xEE}, 7)) {
				t.Fatalf("%s Encode does not write exactly the encoding at the start", name)
			}
		}
		// a short destination panics
		func() {
			defer func() {
				if recover() == nil {
					t.Fatalf("%s Encode into a short buffer did not panic", name)
				}
			}()
			enc.Encode(make([]byte, enc.EncodedLen(64)-1), make([]byte, 64))
		}()
	}
}

func TestBuilder(t *testing.T) {
	for b := 0; b < 256; b++ {
		var sb strings.Builder
		sb.WriteString("ab")
		if err := sb.WriteByte(byte(b)); err != nil {
			t.Fatal(err)
		}
		if sb.Len() != 3 || sb.String() != "ab"+string([]byte{byte(b)}) {
			t.Fatalf("WriteByte(%d) does not append exactly one byte", b)
		}
	}
	sb := new(strings.Builder)
	want := ""
	for i, piece := range []string{"", "x", "héllo", "\x00\xff", strings.Repeat("z", 100)} {
		var n int
		var err error
		if i%2 == 0 {
			n, err = sb.WriteString(piece)
		} else {
			n, err = sb.Write([]byte(piece))
		}
		want += piece
		if n != len(piece) || err != nil || sb.String() != want || sb.Len() != len(want) {
			t.Fatalf("write %d does not append", i)
		}
		sb.Grow(10)
		if sb.String() != want {
			t.Fatalf("Grow changed the text")
		}
	}
	for _, r := range []rune{0, 'a', 0x7f, 0x80, 0x7ff, 0x800, 0xffff, 0x10000, 0x10ffff, 0xd800, -1, 0x110000} {
		var b strings.Builder
		n, err := b.WriteRune(r)
		if err != nil || n != b.Len() || n < 1 || n > 4 {
			t.Fatalf("WriteRune(%x) wrote %d bytes", r, n)
		}
		if utf8.ValidRune(r) && b.String() != string(r) {
			t.Fatalf("WriteRune(%x) is not the UTF-8 encoding", r)
		}
	}
}

func TestCryptoHelpers(t *testing.T) {
	rnd := rand.New(rand.NewSource(2))
	seen := map[[64]byte]string{}
	for i := 0; i < 2000; i++ {
		b := make([]byte, rnd.Intn(40))
		rnd.Read(b)
		sum := sha512.Sum512(b)
		if len(sum) != 64 {
			t.Fatal("sha512 size")
		}
		if prev, ok := seen[sum]; ok && prev != string(b) {
			t.Fatal("sha512 collision (!)")
		}
		seen[sum] = string(b)
		c := append([]byte(nil), b...)
		if subtle.ConstantTimeCompare(b, c) != 1 {
			t.Fatal("ConstantTimeCompare equal")
		}
		if len(c) > 0 {
			c[rnd.Intn(len(c))] ^= 1
			if subtle.ConstantTimeCompare(b, c) != 0 {
				t.Fatal("ConstantTimeCompare different")
			}
		}
		if subtle.ConstantTimeCompare(b, append(c, 0)) != 0 {
			t.Fatal("ConstantTimeCompare different lengths")
		}
		x, y := int32(rnd.Intn(100)), int32(rnd.Intn(100))
		if (subtle.ConstantTimeEq(x, y) == 1) != (x == y) {
			t.Fatal("ConstantTimeEq")
		}
	}
}

func TestTime(t *testing.T) {
	rnd := rand.New(rand.NewSource(3))
	for i := 0; i < 2000; i++ {
		ns := rnd.Int63n(4e18)
		tm := time.Unix(0, ns).UTC()
		back, err := time.Parse(time.RFC3339, tm.Format(time.RFC3339))
		if err != nil || back.UnixNano() != ns/1e9*1e9 {
			t.Fatalf("Parse(Format(t)) is not t truncated to the second: %v %v", tm, back)
		}
		if tm.Unix() != ns/1e9 {
			t.Fatal("Unix() is not floor-div 1e9")
		}
		d := time.Duration(rnd.Int63n(1e15))
		if tm.Add(d).Sub(tm) != d || !tm.Add(d + 1).After(tm) || !tm.Before(tm.Add(d+1)) {
			t.Fatal("Add/Sub/After/Before are not arithmetic")
		}
	}
	a := time.Now()
	for i := 0; i < 1000; i++ {
		b := time.Now()
		if b.Before(a) {
			t.Fatal("time.Now went backwards")
		}
		a = b
	}
}

func TestStrings(t *testing.T) {
	if got := strings.Split("", ","); len(got) != 1 || got[0] != "" {
		t.Fatalf(`Split("", ",") = %q`, got)
	}
	rnd := rand.New(rand.NewSource(4))
	for i := 0; i < 2000; i++ {
		n := 1 + rnd.Intn(6)
		xs := make([]string, n)
		for j := range xs {
			xs[j] = strings.Repeat(string(rune('a'+rnd.Intn(3))), rnd.Intn(4))
		}
		got := strings.Split(strings.Join(xs, ","), ",")
		if len(got) != n {
			t.Fatalf("Split(Join(xs)) length")
		}
		for j := range xs {
			if got[j] != xs[j] {
				t.Fatalf("Split(Join(xs)) != xs")
			}
		}
		s := strings.Join(xs, ";;")
		if strings.Join(strings.Split(s, ";;"), ";;") != s {
			t.Fatalf("Join(Split(s)) != s")
		}
		k := rnd.Int63() - rnd.Int63()
		if v, err := strconv.ParseInt(strconv.FormatInt(k, 10), 10, 64); err != nil || v != k {
			t.Fatal("ParseInt(FormatInt(n)) != n")
		}
		if v, err := strconv.Atoi(strconv.Itoa(int(k))); err != nil || v != int(k) {
			t.Fatal("Atoi(Itoa(n)) != n")
		}
	}
	if fmt.Sprintf("no verbs here") != "no verbs here" || fmt.Sprintf("%s-%d", "a", 7) != "a-7" {
		t.Fatal("Sprintf concatenation model")
	}
	if _, err := strconv.ParseUint("12x", 10, 64); err == nil || !strings.Contains(err.Error(), "12x") {
		t.Fatal("a strconv error quotes its input (C17 flow rule relies on it)")
	}
}

// What net/http does to a redirect target (C15, offsite_cleaned): the path is cleaned before
// the header is written, which can move a backslash segment to the front; the query is kept.
func TestHTTPRedirectCleaning(t *testing.T) {
	for target, want := range map[string]string{
		"/a/../\\evil.example": "/\\evil.example",
		"/ok/path?x=//y":       "/ok/path?x=//y",
		"/a/./b":               "/a/b",
	} {
		w := httptest.NewRecorder()
		r := httptest.NewRequest("GET", "http://site.example/login", nil)
		http.Redirect(w, r, target, http.StatusFound)
		if got := w.Header().Get("Location"); got != want {
			t.Fatalf("Redirect(%q) -> Location %q, model says %q", target, got, want)
		}
	}
}
