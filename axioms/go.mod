module verif/axioms

go 1.22
