; lemma: pid_injective
; property: C14
; over: oauth2:(*OAuth2).End/identity
; contains: "oauth2;;" ++ provider ++ ";;" ++ OAuth2UID(u)
; statement: the account identifier the callback writes to the session determines the (provider, uid) pair: two callbacks that put the same identifier in the session were answered for the same provider with the same uid
; assumes: configured provider names contain no ';' (stronger than the property's "free of the separator ';;'", see the companion lemma)
; expect: unsat
(set-logic ALL)
(declare-const p1 String)
(declare-const p2 String)
(declare-const u1 String)
(declare-const u2 String)
(assert (not (str.contains p1 ";")))
(assert (not (str.contains p2 ";")))
(assert (= (str.++ "oauth2;;" p1 ";;" u1) (str.++ "oauth2;;" p2 ";;" u2)))
(assert (not (and (= p1 p2) (= u1 u2))))
(check-sat)
(get-model)
