; lemma: pid_injective_separator_free
; property: C14
; over: oauth2:(*OAuth2).End/identity
; contains: "oauth2;;" ++ provider ++ ";;" ++ OAuth2UID(u)
; statement: as pid_injective, but under exactly the assumption the property makes: provider names free of the separator ';;'
; assumes: configured provider names do not contain ';;'
; expect: unsat
(set-logic ALL)
(declare-const p1 String)
(declare-const p2 String)
(declare-const u1 String)
(declare-const u2 String)
(assert (not (str.contains p1 ";;")))
(assert (not (str.contains p2 ";;")))
(assert (= (str.++ "oauth2;;" p1 ";;" u1) (str.++ "oauth2;;" p2 ";;" u2)))
(assert (not (and (= p1 p2) (= u1 u2))))
(check-sat)
(get-model)
